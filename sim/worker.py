"""One worker process: executes a slice of runs of one engine.

The driver (`/verif/check`) fixes the environment (XLA_FLAGS, PYTHONHASHSEED,
PYTHONPATH=<repo>, JAX_PLATFORMS) before starting this file; x64 is a process
level switch, so it is an argument.
"""
import argparse
import faulthandler
import importlib
import json
import os
import sys
import time
import traceback

sys.path.insert(0, os.path.dirname(os.path.dirname(os.path.abspath(__file__))))
sys.dont_write_bytecode = True

from sim import core  # noqa: E402


def setup_jax(x64):
  import warnings
  warnings.filterwarnings('ignore')
  import logging
  logging.disable(logging.WARNING)
  import jax
  jax.config.update('jax_enable_x64', bool(x64))
  return jax


def run_one(eng, genome, run):
  ctx = core.Ctx()
  t0 = time.time()
  try:
    sample = eng.execute(genome, ctx)
    res = ctx.result(run, genome, sample)
  except Exception:  # harness failure, never a violation
    res = ctx.result(run, genome, None)
    res['harness_error'] = traceback.format_exc()[-3000:]
  res['wall'] = time.time() - t0
  return res


def same_violation(res, oracle):
  return [v for v in res['violations'] if v['oracle'] == oracle]


def shrink(eng, genome, oracle, budget_n=80, budget_s=240):
  budget_n, budget_s = getattr(eng, 'SHRINK_BUDGET', (budget_n, budget_s))
  """Greedy delta debugging over engine-proposed candidates while the same
  oracle id keeps failing."""
  t0 = time.time()
  n = 0
  best = genome
  progress = True
  while progress and n < budget_n and time.time() - t0 < budget_s:
    progress = False
    for cand in eng.shrink_candidates(best, oracle):
      if n >= budget_n or time.time() - t0 > budget_s:
        break
      if core.canon(cand) == core.canon(best):
        continue
      n += 1
      res = run_one(eng, cand, -1)
      if 'harness_error' in res:
        continue
      if same_violation(res, oracle):
        best = cand
        progress = True
        break
  return best, n


def main():
  ap = argparse.ArgumentParser()
  ap.add_argument('--engine', required=True)
  ap.add_argument('--prop', required=True)
  ap.add_argument('--tier', default='quick')
  ap.add_argument('--seed', type=int, default=core.DEFAULT_SEED)
  ap.add_argument('--runs', default='')
  ap.add_argument('--x64', type=int, default=0)
  ap.add_argument('--out', required=True)
  ap.add_argument('--replay')
  ap.add_argument('--shrink')
  ap.add_argument('--timeout', type=int, default=3600)
  a = ap.parse_args()
  faulthandler.enable()
  faulthandler.dump_traceback_later(a.timeout, exit=True)
  setup_jax(a.x64)
  eng = importlib.import_module(f'sim.engines.{a.engine}')
  out = open(a.out, 'w')

  def emit(obj):
    out.write(json.dumps(obj) + '\n')
    out.flush()

  if a.replay:
    env = json.load(open(a.replay))
    res = run_one(eng, env['genome'], env.get('run', -1))
    emit(res)
  elif a.shrink:
    env = json.load(open(a.shrink))
    g, n = shrink(eng, env['genome'], env['oracle'])
    res = run_one(eng, g, env.get('run', -1))
    emit({'shrunk': g, 'tries': n, 'result': res})
  else:
    runs = [int(x) for x in a.runs.split(',') if x != '']
    for r in runs:
      t0 = time.time()
      try:
        genome = eng.generate(a.prop, a.tier, a.seed, r)
      except Exception:
        emit({'run': r, 'harness_error': traceback.format_exc()[-3000:]})
        continue
      res = run_one(eng, genome, r)
      res['genome'] = genome if (res['violations'] or r < 3 or
                                 'harness_error' in res) else None
      res['wall'] = time.time() - t0
      emit(res)
  emit({'worker_done': True})
  out.close()
  # skip interpreter teardown of XLA thread pools (can hang with forced devices)
  sys.stdout.flush()
  os._exit(0)


if __name__ == '__main__':
  main()
