"""Small sequential reference models (plain Python, no numpy/jax)."""
from fractions import Fraction


class QueueModel:
  """One shard of a bounded FIFO replay queue: a list and a cursor."""

  def __init__(self, capacity, batch, cyclic=False, uniform=False):
    self.cap, self.B = capacity, batch
    self.cyclic, self.uniform = cyclic, uniform
    self.held = []
    self.cur = 0
    self.sampled = set()

  def insert(self, recs):
    """Returns a dict of rare conditions that occurred."""
    before = len(self.held)
    self.held = self.held + list(recs)
    over = max(0, len(self.held) - self.cap)
    dropped = self.held[:over]
    self.held = self.held[over:]
    ev = {
        'exact_fill': over == 0 and len(self.held) == self.cap and before < self.cap,
        'overflow': over > 0,
        'overflow_partial': over > 0 and self.cur > 0,
        'evict_unsampled': any(s not in self.sampled for s in dropped)
                           and not self.uniform,
        'cursor_clamped': self.cur - over < 0 and self.cur > 0,
    }
    self.cur = max(0, self.cur - over)
    return ev

  def avail(self):
    if self.cyclic or self.uniform:
      return len(self.held)
    return len(self.held) - self.cur

  def can_sample(self):
    if self.uniform:
      return True
    return self.avail() >= self.B

  def sample(self):
    if self.cyclic:
      n = len(self.held)
      out = [self.held[(self.cur + i) % n] for i in range(self.B)]
      wrapped = self.cur + self.B >= n
      self.cur = (self.cur + self.B) % n
    else:
      out = self.held[self.cur:self.cur + self.B]
      wrapped = False
      self.cur += self.B
    self.sampled.update(out)
    return out, wrapped


class EpisodeModel:
  """One batch member of ScriptEnv under Episode + AutoReset (+ Eval)."""

  def __init__(self, L, r):
    self.L, self.r = L, r
    self.reset()

  def reset(self):
    # scripted env
    self.t = 0
    self.dead = 0.0
    self.mat = 0.0
    # wrappers
    self.steps = 0
    self.prev_done = False
    # eval wrapper
    self.active = True
    self.ep_reward = 0.0
    self.ep_m = 0.0
    self.ep_steps = 0
    # history
    self.episode_substeps = 0
    self.episodes = []

  def step(self, terms, rew_arg):
    """terms: list of r terminate flags (one per sub-step; the action is held
    during the repeat so all are equal in the wrapped API); returns dict."""
    if self.prev_done:
      self.steps = 0
    reward = 0.0
    m_sum = 0.0
    last_m = 0.0
    for i in range(self.r):
      self.t += 1
      self.dead = max(self.dead, float(terms[i]))
      rr = rew_arg + 0.125 * self.t
      reward += rr
      self.mat += rr
      last_m = 2.0 * rr
      self.episode_substeps += 1
    self.steps += self.r
    inner = self.dead
    timeout = self.steps >= self.L
    done = 1.0 if timeout else inner
    trunc = (1.0 - inner) if timeout else 0.0
    out = {'reward': reward, 'done': done, 'truncation': trunc,
           'steps': float(self.steps), 'metric_m': last_m,
           'timeout': timeout, 'inner': inner}
    if self.active:
      self.ep_reward += reward
      self.ep_m += last_m
      self.ep_steps = self.steps
      if done:
        self.active = False
    out.update({'ep_reward': self.ep_reward, 'ep_m': self.ep_m,
                'ep_steps': float(self.ep_steps), 'active': float(self.active)})
    if done:
      self.episodes.append(self.episode_substeps)
      self.episode_substeps = 0
      self.t = 0
      self.dead = 0.0
      self.mat = 0.0
    self.prev_done = bool(done)
    out.update({'t': self.t, 'dead': self.dead, 'mat': self.mat})
    return out


class StatsModel:
  """Stores everything delivered; population mean/variance by two passes in
  exact rational arithmetic over the float values actually delivered."""

  def __init__(self, nfeat):
    self.n = nfeat
    self.rows = []   # (weight:int, [Fraction]*n)

  def deliver(self, row, weight):
    self.rows.append((int(weight), [Fraction(float(v)) for v in row]))

  def count(self):
    return sum(w for w, _ in self.rows)

  def mean_var(self):
    c = self.count()
    mean = [sum(w * r[j] for w, r in self.rows) / c for j in range(self.n)]
    var = [sum(w * (r[j] - mean[j]) ** 2 for w, r in self.rows) / c
           for j in range(self.n)]
    return [float(m) for m in mean], [float(v) for v in var]
