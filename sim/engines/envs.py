"""C16 — bundled environments honour the Env contract and stay finite.

Real code: every registered physics environment x every native backend it
accepts, training.wrap (Vmap -> Episode -> AutoReset), the three pipelines.
No stubs. The scheduler decides reset keys, the per-member action schedule
(uniform, bang-bang, held extremes, chatter, zero-then-bang), the episode
length (so auto-reset boundaries fall inside the history) and the batch size.
Invariants are evaluated on device after every wrapped step.
"""
from sim import core

ENGINE = 'envs'
OUTPUT_DETERMINISM_IS_PROPERTY = True

ENVS = ['ant', 'halfcheetah', 'hopper', 'humanoid', 'humanoidstandup',
        'inverted_pendulum', 'inverted_double_pendulum', 'pusher', 'reacher',
        'swimmer', 'walker2d']
BACKENDS = ['generalized', 'spring', 'positional']
KINDS = ['uniform', 'bang', 'hold', 'chatter', 'zero_then_bang']
# per-member rotation: held = one extreme corner for the whole history
MEMBER_KINDS = ['uniform', 'bang', 'hold', 'held', 'chatter', 'zero_then_bang',
                'held', 'bang', 'held', 'uniform', 'held', 'hold', 'held',
                'bang', 'held', 'chatter']
# measured single-thread cost classes (s) used only to start long jobs first
COST = {'humanoid': 9, 'humanoidstandup': 9, 'ant': 5, 'walker2d': 4,
        'halfcheetah': 4, 'hopper': 3, 'pusher': 4, 'swimmer': 3,
        'reacher': 2, 'inverted_double_pendulum': 2, 'inverted_pendulum': 1}
COMBOS = [(e, b) for e in ENVS for b in BACKENDS]   # 33; unsupported ones are
# recognised at construction time (ValueError 'Unsupported backend') and
# counted as `unsupported_by_design`


# held-corner sweeps: every member holds its own extreme corner of the action
# box for the whole history (64 sign patterns x 96 steps) on the models with
# the most actuators. Added after seeded change c16-03 (Newton-Schulz
# acceptance test dropped), which needs ~10 % of the sign patterns of
# humanoidstandup/generalized and was reached by the thorough tier only.
SWEEPS = [('humanoidstandup', 'generalized'), ('humanoid', 'generalized')]


def plan(prop, tier):
  return len(COMBOS) * (1 if tier == 'quick' else 4) + len(SWEEPS)


def _sweep(prop, tier, run):
  i = run - len(COMBOS) * (1 if tier == 'quick' else 4)
  return SWEEPS[i] if i >= 0 else None


def worker_class(prop, tier, run):
  # float32 only: it is what the bundled envs run in; under jax_enable_x64
  # several envs mix float32 constants into float64 state (a scan carry dtype
  # error inside EpisodeWrapper) which is outside the statement.
  return {'x64': False, 'dev4': False}


def chunks_per_worker(prop, tier):
  return 1000   # one run per process


def worker_timeout(prop, tier):
  return 2400


def cost(prop, tier, run):
  e, b = _sweep(prop, tier, run) or COMBOS[run % len(COMBOS)]
  return COST[e] * (2 if b == 'generalized' else 1)


def det_runs(prop, tier, n):
  # determinism across processes is a clause of the property itself: every
  # run is executed twice (second time under another PYTHONHASHSEED)
  return n


def sig_of(result):
  s = result.get('sample') or {}
  return f"{s.get('env')}/{s.get('backend')}"


def evidence_info(prop, tier):
  return {
      'rule': 'run = (environment, backend) x reset keys x per-member action '
              'schedule kinds (every kind occurs in every batch) x episode_length '
              'x batch; '
              'distinct = distinct genome hash; every run steps real physics, '
              'non-trivial = the run completed >= 1 wrapped step on a supported '
              'combination',
      'time_unit': 'member environment steps',
      'state_measure': 'distinct (env, backend, schedule kind, episode_length, '
                       'precision, saw termination, saw truncation, contact '
                       'active) tuples',
      'components': {'real': ['brax.envs registry (11 physics envs)',
                              'generalized/spring/positional pipelines',
                              'training.wrap (VmapWrapper, EpisodeWrapper, '
                              'AutoResetWrapper)'],
                     'stub': []},
      'expected_probes': ['terminations', 'truncations', 'autoreset_boundary',
                          'contact_active', 'unsupported_by_design',
                          'dup_member_checked'],
      'assumptions': [
          'mjx backend is not a native pipeline and is not exercised',
          'unit quaternion tolerance 2e-6 in float32 (16x the worst value measured on the repaired tree, 1.2e-7)',
          'an environment that rejects a backend with ValueError("Unsupported '
          'backend") at construction does not support it (swimmer: spring, '
          'positional)'],
  }


def generate(prop, tier, seed, run):
  r = core.run_rng(seed, ENGINE, run)
  sw = _sweep(prop, tier, run)
  if sw:
    return {'env': sw[0], 'backend': sw[1], 'B': 64, 'T': 96, 'L': 200,
            'kind': 'held', 'hold': 5,
            'reset_seed': r.randint(0, 2**31 - 1),
            'act_seed': r.randint(0, 2**31 - 1),
            'x64': worker_class(prop, tier, run)['x64']}
  env, backend = COMBOS[run % len(COMBOS)]
  rep = run // len(COMBOS)
  kind = KINDS[(run + rep + seed) % len(KINDS)]
  if tier == 'quick':
    B, T = 16, 200
    L = r.choice([50, 200])
  else:
    B = r.choice([8, 32, 32, 128]) if COST[env] < 9 else r.choice([8, 32])
    T = r.choice([200, 500, 1000])
    L = r.choice([50, 200, 1000])
  return {'env': env, 'backend': backend, 'B': B, 'T': T, 'L': L,
          'kind': kind, 'hold': r.randint(5, 50),
          'reset_seed': r.randint(0, 2**31 - 1),
          'act_seed': r.randint(0, 2**31 - 1),
          'x64': worker_class(prop, tier, run)['x64']}


def member_kinds(g):
  """Every batch member follows its own schedule kind (rotating through all
  kinds, starting at the run's kind); the last member duplicates member 0."""
  if g['kind'] == 'held':      # held-corner sweep
    return ['held'] * g['B']
  k0 = KINDS.index(g['kind'])
  kinds = [MEMBER_KINDS[(k0 + b) % len(MEMBER_KINDS)] for b in range(g['B'])]
  if g['B'] > 1:
    kinds[-1] = kinds[0]
  return kinds


def make_actions(g, A):
  """[T, B, A] float32 in [-1, 1]; member B-1 duplicates member 0."""
  import numpy as np
  rng = np.random.default_rng(g['act_seed'])
  T, B = g['T'], g['B']
  a = np.zeros((T, B, A))
  for b, kind in enumerate(member_kinds(g)):
    u = rng.uniform(-1, 1, size=(T, A))
    if kind == 'uniform':
      ab = u
    elif kind == 'bang':
      ab = np.sign(u)
    elif kind == 'held':
      ab = np.sign(rng.uniform(-1, 1, size=(1, A))) * np.ones((T, 1))
    elif kind == 'hold':
      h = max(2, g['hold'] + int(rng.integers(-2, 3)))
      s = np.sign(rng.uniform(-1, 1, size=(T // h + 1, A)))
      if rng.random() < 0.5:     # all actuators pushed the same way
        s = np.sign(rng.uniform(-1, 1, size=(T // h + 1, 1))) * np.ones((1, A))
      ab = np.repeat(s, h, axis=0)[:T]
    elif kind == 'chatter':
      base = np.sign(rng.uniform(-1, 1, size=(1, A)))
      flip = rng.uniform(size=(1, A)) < 0.5
      alt = np.where((np.arange(T) % 2 == 0)[:, None], 1.0, -1.0)
      ab = np.where(flip, base * alt, base * np.ones((T, 1)))
    else:  # zero_then_bang
      z = int(rng.integers(0, max(1, T // 2)))
      ab = np.where(np.arange(T)[:, None] < z, 0.0, np.sign(u))
    a[:, b] = ab
  a = np.where(a == 0, 0.0, a).astype(np.float32)
  if B > 1:
    a[:, B - 1] = a[:, 0]
  return a


def execute(g, ctx):
  import jax
  import jax.numpy as jp
  import numpy as np
  from brax import envs
  from brax.envs.wrappers import training
  x64 = bool(jax.config.jax_enable_x64)
  assert x64 == bool(g['x64'])
  name, backend = g['env'], g['backend']
  sig = f'{name}/{backend}'
  brief = dict(g)
  try:
    env = envs.get_environment(name, backend=backend)
  except ValueError as e:
    if 'Unsupported backend' in str(e):
      ctx.probe('unsupported_by_design')
      ctx.notes['unsupported'] = sig
      brief['unsupported'] = True
      return brief
    ctx.violate('raises', 0, sig + '/construct', {'exception': repr(e)[:300]})
    return brief
  except Exception as e:  # pylint: disable=broad-except
    ctx.violate('raises', 0, sig + '/construct', {'exception': repr(e)[:300]})
    return brief
  B, T, L = g['B'], g['T'], g['L']
  wenv = training.wrap(env, episode_length=L, action_repeat=1)
  A = env.action_size
  O = env.observation_size
  keys = jax.random.split(jax.random.PRNGKey(g['reset_seed']), B)
  if B > 1:
    keys = keys.at[B - 1].set(keys[0])
  ctx.log.inp('keys', np.asarray(keys))
  with ctx.under_test('raises', 0, sig + '/reset'):
    state = jax.jit(wenv.reset)(keys)
    jax.block_until_ready(state.obs)
  if ctx.violations:
    return brief
  s0 = jax.tree_util.tree_map(np.asarray, (state.obs, state.done, state.reward))
  ctx.log.out('reset', s0)
  if s0[0].shape != (B, O):
    ctx.violate('shape.obs', 0, sig, {'declared': O, 'observed': list(s0[0].shape)})
    return brief
  if not (s0[1] == 0).all():
    ctx.violate('reset.done0', 0, sig, {'done': s0[1].tolist()})
    return brief
  if not np.isfinite(s0[0]).all():
    ctx.violate('finite.obs', 0, sig, {'at': 'reset'})
    return brief
  acts = make_actions(g, A)
  ctx.log.inp('acts', acts)
  rot_tol = 1e-10 if x64 else 2e-6

  def body(st, a):
    ns = wenv.step(st, a)
    ps = ns.pipeline_state

    def fin(x):
      return jp.all(jp.isfinite(x.reshape(B, -1)), axis=-1)
    flags = (fin(ns.obs) * 1 + fin(ns.reward) * 2 + fin(ns.done) * 4 +
             fin(ps.q) * 8 + fin(ps.qd) * 16 + fin(ps.x.pos) * 32 +
             (fin(ps.xd.vel) & fin(ps.xd.ang)) * 64 + fin(ps.x.rot) * 128)
    rn = jp.max(jp.abs(jp.linalg.norm(ps.x.rot, axis=-1) - 1), axis=-1)
    qdmax = jp.max(jp.abs(ps.qd), axis=-1)
    c = getattr(ps, 'contact', None)
    if c is not None and getattr(c, 'dist', None) is not None and c.dist.size:
      contact = jp.any(c.dist.reshape(B, -1) < 0, axis=-1)
    else:
      contact = jp.zeros((B,), bool)
    ck = jp.sum(ns.obs, axis=-1)
    return ns, (flags, rn, ns.done, ns.info['truncation'], qdmax, contact,
                ns.reward, ck)

  with ctx.under_test('raises', 1, sig + '/step'):
    run = jax.jit(lambda st, ac: jax.lax.scan(body, st, ac))
    final, outs = run(state, jp.asarray(acts))
    jax.block_until_ready(outs)
  if ctx.violations:
    return brief
  flags, rn, done, trunc, qdmax, contact, reward, ck = [np.asarray(o) for o in outs]
  fobs = np.asarray(final.obs)
  ctx.log.out('traj', [flags, done, trunc, reward, ck, fobs])
  ctx.steps = T * B
  for k in member_kinds(g):
    ctx.fault('schedule_' + k)
  ctx.sim_time = float(T * B)
  ctx.nontrivial = True
  nterm = int(((done > 0) & (trunc == 0)).sum())
  ntrunc = int((trunc > 0).sum())
  ctx.probe('terminations', nterm)
  ctx.probe('truncations', ntrunc)
  ctx.probe('autoreset_boundary', int((done[:-1] > 0).sum()))
  ctx.probe('contact_active', int(contact.sum()))
  try:   # probe only: contacts of the final state through the public API
    from brax import contact as _contact
    cf = jax.vmap(lambda x: _contact.get(env.sys, x))(final.pipeline_state.x)
    if cf is not None:
      ctx.probe('contact_active', int((np.asarray(cf.dist) < 0).any(-1).sum()))
  except Exception:  # pylint: disable=broad-except
    ctx.probe('contact_probe_failed')
  ctx.probe('done_not_binary', int(((done != 0) & (done != 1)).sum()))
  with np.errstate(invalid='ignore'):
    ctx.probe_max(f'max:rotdev/{backend}/{"x64" if x64 else "f32"}',
                  float(np.nanmax(rn)))
    ctx.probe_max('max:qd', float(np.nanmax(qdmax)))
  ctx.state((name, backend, g['kind'], L, x64, nterm > 0, ntrunc > 0,
             bool(contact.any())))
  if fobs.shape != (B, O):
    ctx.violate('shape.obs', T, sig, {'declared': O, 'observed': list(fobs.shape)})
    return brief
  names = ['obs', 'reward', 'done', 'q', 'qd', 'x', 'xd', 'x']
  bad = np.argwhere(flags != 255)
  if len(bad):
    t, b = int(bad[0][0]), int(bad[0][1])
    f = int(flags[t, b])
    which = [names[i] for i in range(8) if not (f >> i) & 1]
    ctx.violate('finite.' + which[0], t + 1, sig,
                {'member': b, 'step': t, 'non_finite': which, 'kind': g['kind'],
                 'qd_max_before': float(qdmax[max(t - 1, 0), b])})
    return brief
  badr = np.argwhere(~(rn <= rot_tol))
  if len(badr):
    t, b = int(badr[0][0]), int(badr[0][1])
    ctx.violate('rot.unit', t + 1, sig,
                {'member': b, 'step': t, 'deviation': float(rn[t, b]),
                 'worst': float(np.nanmax(rn)), 'tol': rot_tol,
                 'precision': 'x64' if x64 else 'f32'})
    return brief
  if B > 1:
    # Member B-1 repeats member 0 (same key, same actions). Bitwise equality of
    # two batch slots is NOT demanded: XLA vectorises lanes differently (seen:
    # humanoidstandup / walker2d generalized with B = 16 differ in the last
    # bit from step ~10 on, on the unchanged tree), so only the reset and the
    # first step are compared, to round-off. Gross dependence on the member
    # index (python-level state, shared keys) is what this looks for;
    # cross-process determinism is decided by the replay digests.
    ctx.probe('dup_member_checked')
    ctx.probe('dup_member_bitwise_equal', int(
        np.array_equal(reward[:, 0], reward[:, B - 1]) and
        np.array_equal(ck[:, 0], ck[:, B - 1])))
    o0 = s0[0]
    sc = 1.0 + np.abs(o0[0]).max()
    d_reset = float(np.abs(o0[0] - o0[B - 1]).max() / sc)
    d_step = float(abs(reward[0, 0] - reward[0, B - 1]) /
                   (1.0 + abs(reward[0, 0])))
    if d_reset > 1e-5 or d_step > 1e-3 or done[0, 0] != done[0, B - 1]:
      ctx.violate('replay.same_key_same_actions', 1, sig,
                  {'what': 'two members with identical reset key and actions '
                           'differ at reset / first step beyond round-off',
                   'reset_obs_rel_diff': d_reset, 'first_reward_rel_diff': d_step})
      return brief
  return brief


def shrink_candidates(g, oracle):
  if g['T'] > 10:
    yield dict(g, T=max(10, g['T'] // 2))
  if g['B'] > 2:
    yield dict(g, B=max(2, g['B'] // 2))
  if g['kind'] != 'bang':
    yield dict(g, kind='bang')
  if g['L'] != 1000:
    yield dict(g, L=1000)
