"""C04 — internal forces obey Newton's first and third laws (engine `world`).

Real code: mjcf.loads, spring / positional init+step (momentum), all three
pipelines (rest). No stubs. One run = one generated model compiled once and
stepped as a vmap of independent lanes (initial states, control schedules,
kick schedules) inside one lax.scan that evaluates the invariant every step.
"""
import numpy as np

from sim import core
from sim import modelgen

ENGINE = 'c04'
SHRINK_BUDGET = (45, 420)

CTRL_KINDS = ['random', 'bang', 'held', 'beyond', 'zero']
KICK_KINDS = ['kick', 'spin', 'displace']


# mode by run index (16-cycle): 8 momentum, 4 collision, 1 three-body, 3 rest
MODE_CYCLE = ['momentum', 'collision', 'momentum', 'rest', 'momentum',
              'collision', 'momentum', 'threebody', 'momentum', 'collision',
              'momentum', 'rest', 'momentum', 'collision', 'rest',
              'momentum']


def mode_of(run):
  return MODE_CYCLE[run % len(MODE_CYCLE)]


def plan(prop, tier):
  return 96 if tier == 'quick' else 1200


def worker_class(prop, tier, run):
  # the rest case runs in float64 only: in float32 the spring pipeline turns
  # position round-off into 1e-3 .. 1e-1 rad/s within a few steps (11.2)
  if mode_of(run) == 'rest':
    return {'x64': True, 'dev4': False}
  return {'x64': (run // 2) % 4 != 3, 'dev4': False}


def chunks_per_worker(prop, tier):
  return 3


def worker_timeout(prop, tier):
  return 2400


def det_runs(prop, tier, n):
  return max(8, n // 20)


def evidence_info(prop, tier):
  return {
      'rule': 'run = one generated model (free-rooted forest with any joint '
              'stacks / limits / actuators, optionally self-colliding; or a '
              'two-body collision scene; or a rest scene) x one pipeline x 4-16 '
              'lanes (initial state, control schedule, kick schedule) x 1-200 '
              'steps; distinct = distinct genome hash; non-trivial = >= 2 links '
              'or a collision impulse was observed, and >= 1 step was compared',
      'time_unit': 'simulated seconds (sum over lanes of steps x dt)',
      'state_measure': 'distinct (mode, pipeline, link_types, parents, fault '
                       'kinds fired, precision) signatures',
      'components': {'real': ['brax.io.mjcf.loads', 'spring.pipeline',
                              'positional.pipeline', 'generalized.pipeline '
                              '(rest case)'], 'stub': []},
      'expected_probes': ['kick', 'spin', 'displace', 'ctrl_beyond_range',
                          'ctrl_bang', 'unstable_gain', 'overflow_lane',
                          'collision_impulse', 'self_collision_model',
                          'multi_body_contact_scene',
                          'disconnected_components', 'rest_checked',
                          'rest_near_limit'],
      'assumptions': [
          'momentum is computed from the public state fields mass and xd_i.vel',
          'kicks are re-initialisations through pipeline.init(q+dq, qd+dqd) '
          'between two steps; the invariant is evaluated from the state handed '
          'to step',
          'tolerance 1e-9 relative in float64; 5e-3 in float32 (gross-error '
          'net); lanes that overflowed to inf/nan stop being compared',
          'rest case: 1e-6 in float64; float32 is a gross-error net (0.1 rad/s '
          'or m/s; displacements 0.1 x elapsed time)',
          'angular momentum is not part of the statement and is not checked'],
  }


# ----------------------------------------------------------------- generation

def _lane(r, tier):
  kinds = [k for k in KICK_KINDS if r.random() < 0.6]
  return {'seed': r.randint(0, 2**31 - 1), 'ctrl': r.choice(CTRL_KINDS),
          'qd_scale': r.choice([0.0, 1.0, 1.0, 5.0]),
          'kick_p': r.choice([0.0, 0.02, 0.05, 0.2]) if kinds else 0.0,
          'kicks': kinds}


def generate(prop, tier, seed, run):
  r = core.run_rng(seed, ENGINE, run)
  wc = worker_class(prop, tier, run)
  mode = mode_of(run)
  B = r.choice([4, 8]) if tier == 'quick' else r.choice([4, 8, 16])
  if mode == 'momentum':
    self_collide = r.random() < 0.3
    model = modelgen.gen_model(
        r, roots='free', collide=(0, 0),
        max_links=5 if tier == 'quick' else 6)
    if self_collide and len(model['links']) >= 2:
      # exactly two links may collide with each other: every contact is then
      # "between two bodies" and no link can touch two others at once (that
      # configuration is the known finding demonstrated by the threebody mode)
      for li in r.sample(range(len(model['links'])), 2):
        for ge in model['links'][li]['geoms']:
          ge['contype'] = ge['conaffinity'] = 1
    else:
      self_collide = False
    if r.random() < 0.3:
      # several free roots => mechanically disconnected components
      for l in model['links'][1:]:
        if r.random() < 0.4:
          l.update({'parent': -1, 'root': 'free', 'joints': [],
                    'anchor': [0.0, 0.0, 0.0]})
          l['pos'] = [l['pos'][0], l['pos'][1], l['pos'][2] + 1.5]
      model['acts'] = [a for a in model['acts']
                       if model['links'][a['joint'][0]]['joints']]
    unstable = r.random() < 0.15 and model['acts']
    if unstable:
      for a in model['acts']:
        a['gear'] *= r.choice([100.0, 1000.0])
        if 'kp' in a:
          a['kp'] *= 100.0
        a.pop('forcerange', None)
    return {'mode': 'momentum', 'pipeline': r.choice(['spring', 'positional']),
            'model': model, 'T': r.choice([1, 5, 20, 60, 120, 200]),
            'lanes': [_lane(r, tier) for _ in range(B)],
            'unstable': bool(unstable), 'self_collide': self_collide,
            'x64': wc['x64']}
  if mode == 'collision':
    ga = modelgen.gen_geom(r, (1, 1))
    gb = modelgen.gen_geom(r, (1, 1))
    for g in (ga, gb):
      g['pos'] = [r.uniform(-0.03, 0.03) for _ in range(3)]
      if g['type'] == 'sphere':
        g['size'] = [r.uniform(0.05, 0.2)]
    from sim.worldlib import bounding_radius
    gap = r.uniform(0.02, 0.12)
    d = bounding_radius(ga['type'], ga['size']) + \
        bounding_radius(gb['type'], gb['size']) + gap
    model = {'links': [
        {'parent': -1, 'root': 'free', 'pos': [0.0, 0.0, 0.0],
         'quat': modelgen.rand_quat(r), 'anchor': [0.0] * 3, 'joints': [],
         'geoms': [ga]},
        {'parent': -1, 'root': 'free',
         'pos': [d, r.uniform(-0.05, 0.05), r.uniform(-0.05, 0.05)],
         'quat': modelgen.rand_quat(r), 'anchor': [0.0] * 3, 'joints': [],
         'geoms': [gb]}],
        'acts': [], 'dt': r.choice([0.0005, 0.001, 0.002]),
        'gravity': [r.uniform(-1, 1), r.uniform(-1, 1), r.uniform(-10, 10)],
        'plane': False, 'plane_ct': [0, 0],
        'elasticity': r.choice([0.0, r.uniform(0, 0.9)])}
    return {'mode': 'collision', 'pipeline': r.choice(['spring', 'positional']),
            'model': model, 'T': 200,
            'lanes': [{'seed': r.randint(0, 2**31 - 1),
                       'v': r.uniform(1.5, 6.0), 'spin': r.choice([0.0, 2.0])}
                      for _ in range(B)],
            'x64': wc['x64']}
  if mode == 'threebody':
    # three free spheres in a row, the middle one touching both neighbours at
    # once: every contact is between two bodies, one link has two partners
    rad = [r.uniform(0.06, 0.15) for _ in range(3)]
    pen = [r.uniform(0.004, 0.015) for _ in range(2)]
    xs = [0.0, rad[0] + rad[1] - pen[0], -(rad[0] + rad[2] - pen[1])]
    links = []
    for i in range(3):
      links.append({'parent': -1, 'root': 'free', 'pos': [xs[i], 0.0, 0.0],
                    'quat': [1.0, 0.0, 0.0, 0.0], 'anchor': [0.0] * 3,
                    'joints': [],
                    'geoms': [{'type': 'sphere', 'size': [rad[i]],
                               'pos': [0.0] * 3, 'quat': [1.0, 0.0, 0.0, 0.0],
                               'density': r.uniform(300, 3000), 'contype': 1,
                               'conaffinity': 1}]})
    model = {'links': links, 'acts': [], 'dt': r.choice([0.0005, 0.001, 0.002]),
             'gravity': [0.0, 0.0, r.choice([0.0, -9.81])], 'plane': False,
             'plane_ct': [0, 0], 'elasticity': r.choice([0.0, 0.5])}
    return {'mode': 'threebody', 'pipeline': r.choice(['spring', 'positional']),
            'model': model, 'T': 20,
            'lanes': [{'seed': r.randint(0, 2**31 - 1),
                       'v': r.uniform(0.5, 3.0)} for _ in range(B)],
            'x64': wc['x64']}
  model = modelgen.gen_model(r, roots='mixed', gravity=[0.0, 0.0, 0.0],
                             springs=False, pos_act=False, limit_p=0.8,
                             max_links=5 if tier == 'quick' else 6)
  return {'mode': 'rest', 'model': model, 'T': r.randint(1, 3),
          'lanes': [{'seed': r.randint(0, 2**31 - 1),
                     'near': int(r.random() < 0.5)} for _ in range(B)],
          'x64': wc['x64']}


# ------------------------------------------------------------------ execution

def _lane_arrays(sys, g):
  """Deterministic per-lane arrays from the lane seeds."""
  from sim import worldlib as wl
  T, lanes = g['T'], g['lanes']
  B = len(lanes)
  nq, nv, nu = sys.q_size(), sys.qd_size(), sys.act_size()
  q0 = np.zeros((B, nq))
  qd0 = np.zeros((B, nv))
  ctrl = np.zeros((T, B, nu))
  kf = np.zeros((T, B), bool)
  dq = np.zeros((T, B, nq))
  dqd = np.zeros((T, B, nv))
  fired = {}
  qidx = set(wl.quat_idx(sys))
  layout = wl.q_layout(sys)
  for b, lane in enumerate(lanes):
    rng = np.random.default_rng(lane['seed'])
    if g['mode'] == 'collision':
      q = np.asarray(sys.init_q, float).copy()
      q[3:7] = wl.rand_quat(rng)
      q[10:14] = wl.rand_quat(rng)
      q0[b] = q
      v = lane['v']
      qd = np.zeros(nv)
      qd[0], qd[6] = 0.5 * v, -0.5 * v
      qd[3:6] = rng.normal(size=3) * lane['spin']
      qd[9:12] = rng.normal(size=3) * lane['spin']
      qd0[b] = qd
      continue
    if g['mode'] == 'threebody':
      q0[b] = np.asarray(sys.init_q, float)
      qd = np.zeros(nv)
      qd[6] = -lane['v'] * rng.uniform(0.2, 1.0)     # right neighbour moves in
      qd[12] = lane['v'] * rng.uniform(0.2, 1.0)     # left neighbour moves in
      qd[1:3] = rng.normal(size=2) * 0.1
      qd0[b] = qd
      continue
    q0[b] = wl.sample_q(sys, rng, 1, qmax=1.0, inside_limits=False)[0]
    qd0[b] = rng.uniform(-1, 1, nv) * lane['qd_scale']
    kind = lane['ctrl']
    if nu:
      if kind == 'random':
        ctrl[:, b] = rng.uniform(-2, 2, (T, nu))
      elif kind == 'bang':
        ctrl[:, b] = rng.choice([-1.0, 1.0], (T, nu))
        fired['ctrl_bang'] = fired.get('ctrl_bang', 0) + 1
      elif kind == 'held':
        h = int(rng.integers(5, 31))
        s = rng.choice([-1.0, 1.0], (T // h + 1, nu))
        ctrl[:, b] = np.repeat(s, h, axis=0)[:T]
      elif kind == 'beyond':
        ctrl[:, b] = rng.choice([-10.0, -5.0, 5.0, 10.0], (T, nu))
        fired['ctrl_beyond_range'] = fired.get('ctrl_beyond_range', 0) + 1
    if lane['kick_p'] > 0 and T > 1:
      flags = rng.random(T) < lane['kick_p']
      flags[0] = False
      for t in np.nonzero(flags)[0]:
        k = lane['kicks'][int(rng.integers(len(lane['kicks'])))]
        kf[t, b] = True
        fired[k] = fired.get(k, 0) + 1
        for (typ, qi, di) in layout:
          if typ == 'f':
            if k == 'kick':
              dqd[t, b, di:di + 3] = rng.normal(size=3) * 5.0
            elif k == 'spin':
              dqd[t, b, di + 3:di + 6] = rng.normal(size=3) * 5.0
            else:
              dq[t, b, qi:qi + 3] = rng.uniform(-0.1, 0.1, 3)
          else:
            n = int(typ)
            if k == 'spin':
              dqd[t, b, di:di + n] = rng.normal(size=n) * 3.0
            elif k == 'displace':
              dq[t, b, qi:qi + n] = rng.uniform(-0.2, 0.2, n)
  for i in qidx:
    dq[..., i] = 0.0
  return q0, qd0, ctrl, kf, dq, dqd, fired


def _tol(x64, mode):
  if mode == 'rest':
    # float32 is a gross-error net only: the spring pipeline amplifies position
    # round-off by its constraint stiffness (measured 3.7e-3 rad/s after three
    # 4 ms steps on a 3-link chain; the same genome gives ~1e-11 in float64)
    return 1e-6 if x64 else 1e-1
  return 1e-9 if x64 else 5e-3


def _run_momentum(g, ctx, sys, x64):
  import jax
  import jax.numpy as jp
  from sim import worldlib as wl
  P = wl.pipelines()[g['pipeline']]
  q0, qd0, ctrl, kf, dq, dqd, fired = _lane_arrays(sys, g)
  dt = float(sys.opt.timestep)
  sig = f"{g['pipeline']}/{g['mode']}"
  ctx.log.inp('lanes', [q0, qd0, ctrl, kf, dq, dqd])
  use_kicks = bool(kf.any())

  def run(q, qd, c, f, a, b, want_x=False):
    st = P.init(sys, q, qd)
    M = jp.sum(st.mass)
    grav = sys.gravity

    def body(st, inp):
      ci, fi, ai, bi = inp
      if use_kicks:
        sk = P.init(sys, st.q + ai, st.qd + bi)
        st = jax.tree_util.tree_map(lambda x, y: jp.where(fi, x, y), sk, st)
      p0 = jp.sum(st.mass[:, None] * st.xd_i.vel, axis=0)
      v0 = st.xd_i.vel[0]
      ns = P.step(sys, st, ci)
      p1 = jp.sum(ns.mass[:, None] * ns.xd_i.vel, axis=0)
      err = jp.max(jp.abs(p1 - p0 - M * grav * dt))
      scale = jp.sum(ns.mass[:, None] * jp.abs(ns.xd_i.vel)) + \
          jp.sum(st.mass[:, None] * jp.abs(st.xd_i.vel)) + \
          M * jp.max(jp.abs(grav)) * dt
      fin = jp.all(jp.isfinite(p0)) & jp.all(jp.isfinite(p1)) & \
          jp.all(jp.isfinite(ns.qd)) & jp.all(jp.isfinite(ns.q))
      imp = jp.max(jp.abs(ns.xd_i.vel[0] - v0 - grav * dt))
      xmax = jp.max(jp.abs(ns.x_i.pos)) + jp.max(jp.abs(st.x_i.pos))
      res = (err / scale, fin, jp.max(jp.abs(ns.qd)), imp, err, scale, xmax)
      if want_x:
        res = res + ((st.x.pos, st.x.rot, ns.x.pos, ns.x.rot),)
      return ns, res

    _, out = jax.lax.scan(body, st, (c, f, a, b))
    return out

  def classify(t, b):
    """Only used to attribute an observed violation: is some link in
    penetrating contact with >= 2 distinct other links around step t?"""
    from brax import contact as bcontact
    from brax.base import Transform
    out = jax.jit(lambda *a: run(*a, want_x=True))(
        jp.asarray(q0[b]), jp.asarray(qd0[b]), jp.asarray(ctrl[:, b]),
        jp.asarray(kf[:, b]), jp.asarray(dq[:, b]), jp.asarray(dqd[:, b]))
    xs = [np.asarray(o) for o in out[-1]]
    worst = 0
    for (pos, rot) in ((xs[0][t], xs[1][t]), (xs[2][t], xs[3][t])):
      c = bcontact.get(sys, Transform(pos=jp.asarray(pos), rot=jp.asarray(rot)))
      if c is None:
        continue
      dist = np.asarray(c.dist)
      li = np.asarray(c.link_idx).T if np.asarray(c.link_idx).shape[0] == 2 \
          else np.asarray(c.link_idx)
      partners = {}
      for k in range(len(dist)):
        if dist[k] < 0:
          a_, b_ = int(li[k][0]), int(li[k][1])
          if a_ >= 0 and b_ >= 0:
            partners.setdefault(a_, set()).add(b_)
            partners.setdefault(b_, set()).add(a_)
      worst = max([worst] + [len(v) for v in partners.values()])
    return worst

  with ctx.under_test('raises', 0, sig + '/init_step'):
    f = jax.jit(jax.vmap(run, in_axes=(0, 0, 1, 1, 1, 1), out_axes=1))
    out = f(jp.asarray(q0), jp.asarray(qd0), jp.asarray(ctrl), jp.asarray(kf),
            jp.asarray(dq), jp.asarray(dqd))
    jax.block_until_ready(out)
  if ctx.violations:
    return
  rel, fin, qdmax, imp, err, scale, xmax = [np.asarray(o) for o in out]   # [T, B]
  ctx.log.out('momentum', [rel, fin, qdmax])
  T, B = rel.shape
  alive = np.cumprod(fin, axis=0).astype(bool)
  ctx.steps = int(alive.sum())
  ctx.sim_time = float(alive.sum() * dt)
  for k, c in fired.items():
    ctx.fault(k, c)
  if g.get('unstable'):
    ctx.fault('unstable_gain')
  if (~alive).any():
    ctx.probe('overflow_lane', int((~alive[-1]).sum()))
  with np.errstate(invalid='ignore'):
    if np.nanmax(np.where(alive, qdmax, 0)) > 1e3:
      ctx.probe('diverged_qd_gt_1e3')
    impulse = bool((np.where(alive, imp, 0) > 1e-3).any())
  if g['mode'] == 'collision' and impulse:
    ctx.probe('collision_impulse')
  if g.get('self_collide'):
    ctx.probe('self_collision_model')
    if impulse:
      ctx.probe('collision_impulse')
  nroots = sum(1 for p in sys.link_parents if p == -1)
  if nroots > 1:
    ctx.probe('disconnected_components')
  tol = _tol(x64, g['mode'])
  # allowed = tol * momentum scale + round-off floor of velocities that the
  # pipelines recover as position differences: K * eps * M * |x| / dt
  eps = 2.3e-16 if x64 else 1.2e-7
  Mtot = float(np.sum(np.asarray(sys.link.inertia.mass)))
  with np.errstate(invalid='ignore', over='ignore'):
    allowed = tol * scale + 32 * eps * Mtot * (1.0 + xmax) / dt
    relm = np.where(alive, err / allowed, 0.0)
  ctx.probe_max('max:err_over_allowed/' + g['pipeline'] +
                ('/x64' if x64 else '/f32'), float(relm.max()))
  ctx.state((g['mode'], g['pipeline'], sys.link_types,
             list(map(int, sys.link_parents)), sorted(fired), x64))
  ctx.nontrivial = ctx.steps > 0 and (sys.num_links() >= 2 or impulse)
  if g['mode'] == 'threebody' and impulse:
    ctx.probe('multi_body_contact_scene')
  bad = np.argwhere(relm > 1.0)
  if len(bad):
    t, b = int(bad[0][0]), int(bad[0][1])
    if g['mode'] == 'threebody':
      if classify(t, b) >= 2:
        sig += '/multi_body_contact'
    ctx.violate('momentum.step', t, sig, {
        'lane': b, 'step': t, 'rel_err': float(rel[t, b]), 'tol': tol,
        'abs_err': float(err[t, b]), 'scale': float(scale[t, b]),
        'allowed': float(allowed[t, b]),
        'link_types': sys.link_types, 'dt': dt,
        'precision': 'x64' if x64 else 'f32'})


def _run_rest(g, ctx, sys, x64):
  import jax
  import jax.numpy as jp
  from sim import worldlib as wl
  B, T = len(g['lanes']), g['T']
  q0 = np.stack([wl.sample_q(sys, np.random.default_rng(l['seed']), 1, qmax=1.0,
                             inside_limits=True, margin=0.05)[0]
                 for l in g['lanes']])
  # "any joint configuration inside its limits": half of the lanes sit 2-10 %
  # of the range away from a bound (|q| <= 1 kept)
  lo, hi = wl.dof_limits(sys)
  for b, l in enumerate(g['lanes']):
    if not l.get('near'):
      continue
    rng = np.random.default_rng(l['seed'] + 7)
    for (t, qi, di) in wl.q_layout(sys):
      if t == 'f':
        continue
      for k in range(int(t)):
        if np.isfinite(lo[di + k]) and rng.random() < 0.7:
          w = hi[di + k] - lo[di + k]
          f = rng.uniform(0.02, 0.1)
          cand = lo[di + k] + f * w if rng.random() < 0.5 else hi[di + k] - f * w
          if abs(cand) <= 1.0:
            q0[b, qi + k] = cand
            ctx.probe('rest_near_limit')
  ctx.log.inp('q0', q0)
  tol = _tol(x64, 'rest')
  dt = float(sys.opt.timestep)
  for name, P in wl.pipelines().items():
    sig = f'{name}/rest'

    def run(q):
      st = P.init(sys, q, jp.zeros(sys.qd_size()))
      outs = []
      s = st
      for _ in range(T):
        s = P.step(sys, s, jp.zeros(sys.act_size()))
        outs.append(jp.stack([
            jp.max(jp.abs(s.qd), initial=0.0),
            jp.max(jp.abs(s.q - q), initial=0.0),
            jp.maximum(jp.max(jp.abs(s.xd.vel)), jp.max(jp.abs(s.xd.ang))),
            jp.max(jp.abs(s.x.pos - st.x.pos))]))
      return jp.stack(outs)

    with ctx.under_test('raises', 0, sig + '/init_step'):
      out = np.asarray(jax.jit(jax.vmap(run))(jp.asarray(q0)))   # [B, T, 4]
    if ctx.violations:
      return
    ctx.log.out('rest/' + name, out)
    ctx.steps += B * T
    ctx.sim_time += B * T * dt
    ctx.probe('rest_checked')
    ctx.probe_max('max:rest_over_tol/' + name + ('/x64' if x64 else '/f32'),
                  float(np.nanmax(out) / tol))
    ctx.state(('rest', name, sys.link_types, list(map(int, sys.link_parents)), x64))
    names = ['rest.qd', 'rest.q', 'rest.xd', 'rest.x']
    # displacements (columns 1 and 3) are velocities x time: scale their bound
    tols = np.array([tol, tol * max(T * dt, 1e-2) if not x64 else tol,
                     tol, tol * max(T * dt, 1e-2) if not x64 else tol])
    bad = np.argwhere(~(out <= tols))
    if len(bad):
      b, t, k = [int(x) for x in bad[0]]
      ctx.violate(names[k] if k < 3 else 'rest.q', t, sig, {
          'lane': b, 'step': t, 'value': float(out[b, t, k]), 'tol': tol,
          'quantity': names[k], 'link_types': sys.link_types,
          'precision': 'x64' if x64 else 'f32'})
      return
  ctx.nontrivial = sys.num_links() >= 2 or sys.q_size() > 0


def execute(g, ctx):
  import jax
  from sim import worldlib as wl
  x64 = bool(jax.config.jax_enable_x64)
  assert x64 == bool(g['x64'])
  with ctx.under_test('raises', 0, 'load'):
    sys = wl.load(g['model'])
  if ctx.violations:
    return {'mode': g['mode']}
  if g['mode'] == 'rest':
    _run_rest(g, ctx, sys, x64)
  else:
    _run_momentum(g, ctx, sys, x64)
  return {'mode': g['mode'], 'pipeline': g.get('pipeline', 'all'),
          'link_types': sys.link_types,
          'link_parents': [int(p) for p in sys.link_parents],
          'T': g['T'], 'lanes': g['lanes'][:2], 'dt': g['model']['dt'],
          'n_act': len(g['model']['acts']), 'x64': g['x64']}


# ------------------------------------------------------------------ shrinking

def shrink_candidates(g, oracle):
  if len(g['lanes']) > 1:
    for i in range(len(g['lanes'])):
      yield dict(g, lanes=[g['lanes'][i]])
  if g['T'] > 1:
    for t in (1, g['T'] // 4, g['T'] // 2):
      if 0 < t < g['T']:
        yield dict(g, T=t)
  if g['mode'] == 'momentum':
    for i, l in enumerate(g['lanes']):
      if l['kick_p'] > 0:
        yield dict(g, lanes=g['lanes'][:i] + [dict(l, kick_p=0.0)] + g['lanes'][i + 1:])
      if l['ctrl'] != 'zero':
        yield dict(g, lanes=g['lanes'][:i] + [dict(l, ctrl='zero')] + g['lanes'][i + 1:])
      if l['qd_scale'] != 0.0:
        yield dict(g, lanes=g['lanes'][:i] + [dict(l, qd_scale=0.0)] + g['lanes'][i + 1:])
  if g['mode'] != 'collision':
    for m in modelgen.shrink_model(g['model']):
      yield dict(g, model=m)
