"""C18 — running observation statistics (engine `stats`).

Real code: brax.training.acme.running_statistics init_state / update
(weights, pmap_axis_name under jax.pmap and jax.vmap(axis_name=)), normalize,
denormalize. No stubs. The "history" is a stream of samples; the scheduler
decides how it is delivered (cut, batch axes, order, weights as multiplicity,
sharding over devices). Oracle: population statistics (float64, two passes) of
everything delivered so far, after every update, on every device.
"""
from sim import core

ENGINE = 'stats'
SHRINK_BUDGET = (150, 400)


def plan(prop, tier):
  return 1500 if tier == 'quick' else 16000


def worker_class(prop, tier, run):
  return {'x64': run % 4 != 3, 'dev4': run % 3 == 0}


def chunks_per_worker(prop, tier):
  return 2


def det_runs(prop, tier, n):
  return max(16, n // 60)


def evidence_info(prop, tier):
  return {
      'rule': 'run = one sample stream (structure incl. leaves of different feature rank, features, scale, offset, '
              'constant column, integer leaf) + one delivery schedule (cuts, '
              'batch axes, permutation, integer weights 0..4, devices, jit) from '
              'the run PRNG; distinct = distinct genome hash; non-trivial = >= 2 '
              'updates were checked against the population statistics',
      'time_unit': 'samples delivered (weight counted)',
      'state_measure': 'distinct (structure, #updates, axes, weighted, devices, '
                       'via, clip active, constant column, precision) tuples',
      'components': {'real': ['running_statistics.init_state', 'update',
                              'normalize', 'denormalize', 'jax.pmap psum on '
                              '2/4 forced host devices', 'jax.vmap(axis_name)'],
                     'stub': []},
      'expected_probes': ['zero_weight_sample', 'zero_weight_batch',
                          'zero_weight_device', 'reorder', 'two_axes',
                          'clip_min_active', 'clip_max_active',
                          'constant_column', 'int_leaf', 'sharded_pmap',
                          'sharded_vmap', 'roundtrip_checked',
                          'mixed_feature_rank'],
      'assumptions': [
          'total weight of the first batch is positive',
          'max_abs_value=None (clipping of normalised values is not in the '
          'statement)',
          'reference statistics computed in float64 by two passes over the '
          'values actually delivered (after the cast to the worker precision)'],
  }


# ----------------------------------------------------------------- generation

def generate(prop, tier, seed, run):
  r = core.run_rng(seed, ENGINE, run)
  wc = worker_class(prop, tier, run)
  D = r.choice([2, 4]) if wc['dev4'] else 1
  F = r.randint(1, 6)
  struct = r.choice(['arr', 'dict', 'dict_int'])
  if F == 1 and struct == 'dict':
    struct = 'arr'
  exp = r.uniform(-3, 3)
  scale = 10 ** exp
  offset = [scale * r.uniform(-3, 3) for _ in range(F)]
  const_col = r.randrange(F) if r.random() < 0.3 else -1
  weighted = r.random() < 0.5
  nb = r.randint(1, 8)
  budget = r.randint(2, 200)
  deliveries = []
  total = 0
  for bi in range(nb):
    axes = 2 if r.random() < 0.35 else 1
    unit = D * (2 if axes == 2 else 1)
    remaining = budget - total
    if remaining < unit:
      if bi == 0:
        remaining = unit
      else:
        break
    per = r.randint(1, max(1, min(remaining // unit, 200 // (unit * max(1, nb)) + 3)))
    n = per * unit
    d = {'n': n, 'axes': axes}
    if weighted:
      w = [r.choice([0, 0, 1, 1, 2, 3, 4]) for _ in range(n)]
      if r.random() < 0.12 and bi > 0:
        w = [0] * n
      if bi == 0 and sum(w) == 0:
        w[r.randrange(n)] = r.randint(1, 4)
      d['w'] = w
    if D > 1:
      d['via'] = r.choice(['pmap', 'vmap'])
    deliveries.append(d)
    total += n
  order = list(range(len(deliveries)))
  reorder = r.random() < 0.4
  perm_rows = r.random() < 0.4
  if r.random() < 0.5:
    smin, smax = 1e-6, 1e6
  else:
    smin = r.choice([1e-6, scale * 0.5, scale * 2.0])
    smax = r.choice([1e6, scale * 0.8, scale * 3.0])
    if smax < smin:
      smin, smax = smax, smin
  # leaves of different feature rank (one dict leaf carries (1, k) features):
  # drawn last so that all earlier draws keep their values. Added after seeded
  # change c18-04 (weights expanded to the rank of the first leaf).
  mixed = r.choice(['', 'a', 'b']) if struct == 'dict' else ''
  return {'F': F, 'struct': struct, 'mixed_rank': mixed, 'scale': scale, 'offset': offset,
          'const_col': const_col, 'data_seed': r.randint(0, 2**31 - 1),
          'deliveries': deliveries, 'D': D, 'reorder': reorder,
          'perm_rows': perm_rows, 'std_min': smin, 'std_max': smax,
          'jit': int(r.random() < 0.5), 'x64': wc['x64']}


# ------------------------------------------------------------------ execution

def _pack(struct, x, ints, F, mixed=''):
  if struct == 'arr':
    return x
  k = max(1, F // 2)
  if struct == 'dict' or ints is None:
    if F == 1:
      return {'a': x}
    d = {'a': x[..., :k], 'b': x[..., k:]}
    if mixed:   # this leaf has matrix features of shape (1, k)
      d[mixed] = d[mixed][..., None, :]
    return d
  return {'a': x, 'n': ints}


def execute(g, ctx):
  import jax
  import jax.numpy as jnp
  import numpy as np
  from brax.training.acme import running_statistics as rs
  x64 = bool(jax.config.jax_enable_x64)
  assert x64 == bool(g['x64']), 'worker precision differs from genome'
  dt = np.float64 if x64 else np.float32
  tol = 1e-9 if x64 else 2e-4
  F, D, struct = g['F'], g['D'], g['struct']
  mixed = g.get('mixed_rank', '') if (struct == 'dict' and F > 1) else ''
  sig = f"{struct}{'+rank_' + mixed if mixed else ''}/{'x64' if x64 else 'f32'}/D{D}"
  if mixed:
    ctx.probe('mixed_feature_rank')

  def unmix(d):
    """{'a','b'} of statistics / data -> the two leaves with the (1, k) leaf
    squeezed back to (k,) (only the feature axis -2 of that leaf, which must be 1)"""
    a, b = np.asarray(d['a']), np.asarray(d['b'])
    if mixed == 'a':
      a = np.squeeze(a, -2)
    elif mixed == 'b':
      b = np.squeeze(b, -2)
    return a, b
  rng = np.random.default_rng(g['data_seed'])
  N = sum(d['n'] for d in g['deliveries'])
  data = np.asarray(g['offset']) + g['scale'] * rng.normal(size=(N, F))
  if g['const_col'] >= 0:
    data[:, g['const_col']] = g['offset'][g['const_col']]
    ctx.probe('constant_column')
  data = data.astype(dt)
  ints = rng.integers(-5, 6, size=(N, 2)).astype(np.int32)
  has_int = struct == 'dict_int'
  if has_int:
    ctx.probe('int_leaf')
  rows = np.arange(N)
  if g['perm_rows']:
    rows = rng.permutation(N)
  order = list(range(len(g['deliveries'])))
  if g['reorder'] and len(order) > 1:
    order = [int(i) for i in rng.permutation(len(order))]
    # the first delivered batch must have positive total weight
    for j, i in enumerate(order):
      w = g['deliveries'][i].get('w')
      if w is None or sum(w) > 0:
        order[0], order[j] = order[j], order[0]
        break
    ctx.fault('reorder')
  starts = np.cumsum([0] + [d['n'] for d in g['deliveries']])
  ref_scale = g['scale'] + max(abs(o) for o in g['offset'])
  smin, smax = g['std_min'], g['std_max']

  ref_nest = _pack(struct, jnp.zeros((F,), dt),
                   jnp.zeros((2,), jnp.int32) if has_int else None, F, mixed)
  with ctx.under_test('raises', 0, sig + '/init_state'):
    st = rs.init_state(ref_nest)
  if ctx.violations:
    return None
  if D > 1:
    st = jax.tree_util.tree_map(lambda x: jnp.stack([x] * D), st)

  def upd(s, b, w, axis=None):
    return rs.update(s, b, weights=w, std_min_value=smin, std_max_value=smax,
                     pmap_axis_name=axis)
  fns = {}

  def get_fn(via, weighted):
    key = (via, weighted)
    if key in fns:
      return fns[key]
    if via == 'pmap':
      f = jax.pmap((lambda s, b, w: upd(s, b, w, 'i')) if weighted else
                   (lambda s, b: upd(s, b, None, 'i')), axis_name='i')
    elif via == 'vmap':
      f = jax.vmap((lambda s, b, w: upd(s, b, w, 'i')) if weighted else
                   (lambda s, b: upd(s, b, None, 'i')), axis_name='i')
      if g['jit']:
        f = jax.jit(f)
    else:
      f = (lambda s, b, w: upd(s, b, w)) if weighted else \
          (lambda s, b: upd(s, b, None))
      if g['jit']:
        f = jax.jit(f)
    fns[key] = f
    return f

  seenX, seenW, seenI = [], [], []
  nupd = 0
  last = None
  for step, di in enumerate(order):
    d = g['deliveries'][di]
    idx = rows[starts[di]:starts[di + 1]]
    xb = data[idx]
    ib = ints[idx]
    w = None if d.get('w') is None else np.asarray(d['w'], dt)
    n = d['n']
    shape = ()
    if D > 1:
      shape += (D,)
    if d['axes'] == 2:
      shape += (2,)
      ctx.fault('two_axes')
    shape += (n // int(np.prod(shape or (1,))),)
    bx = xb.reshape(shape + (F,))
    bi = ib.reshape(shape + (2,))
    bw = None if w is None else w.reshape(shape)
    if w is not None:
      ctx.fault('zero_weight_sample', int((w == 0).sum()))
      if w.sum() == 0:
        ctx.fault('zero_weight_batch')
      elif D > 1 and (bw.reshape(D, -1).sum(1) == 0).any():
        ctx.fault('zero_weight_device')
      ctx.fault('weight_gt1', int((w > 1).sum()))
    via = d.get('via', 'none') if D > 1 else 'none'
    if via == 'pmap':
      ctx.fault('sharded_pmap')
    elif via == 'vmap':
      ctx.fault('sharded_vmap')
    batch = _pack(struct, jnp.asarray(bx), jnp.asarray(bi) if has_int else None, F, mixed)
    ctx.log.inp('update', [bx, bw if bw is not None else 0])
    f = get_fn(via, w is not None)
    with ctx.under_test('raises', step, sig + '/update'):
      st = f(st, batch, jnp.asarray(bw)) if w is not None else f(st, batch)
      jax.block_until_ready(st)
    if ctx.violations:
      return None
    nupd += 1
    last = (batch, bx, bi)
    seenX.append(xb.astype(np.float64))
    seenI.append(ib.astype(np.float64))
    seenW.append(np.ones(n) if w is None else w.astype(np.float64))
    X, W, I = np.concatenate(seenX), np.concatenate(seenW), np.concatenate(seenI)
    ctx.steps += 1
    ctx.sim_time += float(W.sum() - (0 if len(seenW) == 1 else
                                     np.concatenate(seenW[:-1]).sum()))
    cnt = W.sum()

    def pop(A):
      mean = (W[:, None] * A).sum(0) / cnt
      var = (W[:, None] * (A - mean) ** 2).sum(0) / cnt
      return mean, var
    mean, var = pop(X)
    std = np.clip(np.sqrt(var), smin, smax)
    if (np.sqrt(var) < smin).any():
      ctx.probe('clip_min_active')
    if (np.sqrt(var) > smax).any():
      ctx.probe('clip_max_active')
    ctx.state((struct, nupd, d['axes'], w is not None, D, via,
               bool((np.sqrt(var) < smin).any() or (np.sqrt(var) > smax).any()),
               g['const_col'] >= 0, x64))
    sn = jax.tree_util.tree_map(np.asarray, st)
    ctx.log.out('state', [sn.count, sn.mean, sn.std])
    for dev in range(D):
      pick = (lambda a: a[dev]) if D > 1 else (lambda a: a)
      c = float(pick(sn.count))
      if c != float(cnt):
        ctx.violate('count', step, sig, {'device': dev, 'expected': float(cnt),
                                         'observed': c})
        return None
      try:
        if struct == 'arr':
          gm, gs = pick(sn.mean), pick(sn.std)
        elif has_int or F == 1:
          gm, gs = pick(sn.mean['a']), pick(sn.std['a'])
        else:
          gm = np.concatenate(unmix({k: pick(v) for k, v in sn.mean.items()}), -1)
          gs = np.concatenate(unmix({k: pick(v) for k, v in sn.std.items()}), -1)
      except (ValueError, IndexError, KeyError) as e:
        ctx.violate('mean', step, sig, {
            'device': dev, 'what': 'statistics have the wrong structure',
            'error': str(e)[:200]})
        return None
      if np.shape(gm) != mean.shape or np.shape(gs) != mean.shape:
        ctx.violate('mean', step, sig, {
            'device': dev, 'what': 'statistics have the wrong shape',
            'expected_shape': list(mean.shape),
            'observed_shape': [list(np.shape(gm)), list(np.shape(gs))]})
        return None
      em = np.abs(gm - mean).max() / ref_scale
      ev = np.abs(gs.astype(np.float64) ** 2 - std ** 2).max() / \
          ref_scale ** 2
      ctx.probe_max('max:mean_err_over_tol', em / tol)
      ctx.probe_max('max:var_err_over_tol', ev / tol)
      if not em <= tol:
        ctx.violate('mean', step, sig, {
            'device': dev, 'rel_err': float(em), 'tol': tol,
            'expected': mean.tolist(), 'observed': gm.tolist()})
        return None
      if not ev <= tol:
        oracle = 'clip' if ((gs < smin * (1 - 1e-6)).any() or
                            (gs > smax * (1 + 1e-6)).any()) else 'variance'
        ctx.violate(oracle, step, sig, {
            'device': dev, 'rel_err_var': float(ev), 'tol': tol,
            'expected_std': std.tolist(), 'observed_std': gs.tolist(),
            'std_min': smin, 'std_max': smax})
        return None
      if (gs < smin * (1 - 1e-6)).any() or (gs > smax * (1 + 1e-6)).any():
        ctx.violate('clip', step, sig, {'observed_std': gs.tolist(),
                                        'std_min': smin, 'std_max': smax})
        return None
      if has_int:
        imean, ivar = pop(I)
        istd = np.clip(np.sqrt(ivar), smin, smax)
        gim, gis = pick(sn.mean['n']), pick(sn.std['n'])
        if not (np.abs(gim - imean).max() <= tol * 5 and
                np.abs(gis.astype(np.float64) ** 2 - istd ** 2).max()
                <= tol * max(25, smin ** 2)):
          ctx.violate('mean', step, sig + '/int_leaf', {
              'device': dev, 'expected': [imean.tolist(), istd.tolist()],
              'observed': [gim.tolist(), gis.tolist()]})
          return None
  # normalise / denormalise round trip on the last batch, device 0 statistics
  if last is not None:
    batch, bx, bi = last
    ms = st if D == 1 else jax.tree_util.tree_map(lambda x: x[0], st)
    with ctx.under_test('raises', len(order), sig + '/normalize'):
      nrm = rs.normalize(batch, ms)
      back = rs.denormalize(nrm, ms)
    if ctx.violations:
      return None
    ctx.probe('roundtrip_checked')
    bk = jax.tree_util.tree_map(np.asarray, back)
    nm = jax.tree_util.tree_map(np.asarray, nrm)
    ctx.log.out('roundtrip', bk)
    if struct == 'arr':
      fl = bk
    elif has_int:
      fl = bk['a']
    elif F > 1:
      fl = np.concatenate(unmix(bk), axis=-1)
    else:
      fl = bk['a']
    err = np.abs(fl.astype(np.float64) - bx).max() / ref_scale
    ctx.probe_max('max:roundtrip_err_over_tol', err / tol)
    if not err <= tol:
      ctx.violate('roundtrip.float', len(order), sig,
                  {'rel_err': float(err), 'tol': tol})
      return None
    if has_int:
      for name, arr in (('normalize', nm['n']), ('denormalize', bk['n'])):
        if arr.dtype != np.int32 or not np.array_equal(arr, bi):
          ctx.violate('roundtrip.nonfloat', len(order), sig,
                      {'stage': name, 'dtype': str(arr.dtype)})
          return None
  ctx.nontrivial = nupd >= 2
  brief = {k: g[k] for k in g if k != 'deliveries'}
  brief['deliveries'] = [{'n': d['n'], 'axes': d['axes'],
                          'w_head': (d.get('w') or [])[:8],
                          'via': d.get('via')} for d in g['deliveries']]
  return brief


# ------------------------------------------------------------------ shrinking

def shrink_candidates(g, oracle):
  ds = g['deliveries']
  for i in reversed(range(len(ds))):
    if len(ds) > 1:
      c = dict(g)
      c['deliveries'] = ds[:i] + ds[i + 1:]
      w0 = c['deliveries'][0].get('w')
      if w0 is None or sum(w0) > 0:
        yield c
  if g['reorder']:
    yield dict(g, reorder=False)
  if g['perm_rows']:
    yield dict(g, perm_rows=False)
  for i, d in enumerate(ds):
    unit = g['D'] * (2 if d['axes'] == 2 else 1)
    if d['n'] > unit:
      n2 = max(unit, (d['n'] // 2 // unit) * unit)
      d2 = dict(d, n=n2)
      if d.get('w') is not None:
        d2['w'] = d['w'][:n2]
        if i == 0 and sum(d2['w']) == 0:
          d2['w'][0] = 1
      c = dict(g)
      c['deliveries'] = ds[:i] + [d2] + ds[i + 1:]
      yield c
    if d.get('w') is not None:
      c = dict(g)
      c['deliveries'] = ds[:i] + [{k: v for k, v in d.items() if k != 'w'}] + ds[i + 1:]
      yield c
    if d['axes'] == 2:
      c = dict(g)
      c['deliveries'] = ds[:i] + [dict(d, axes=1)] + ds[i + 1:]
      yield c
  if g.get('mixed_rank'):
    yield dict(g, mixed_rank='')
  if g['struct'] != 'arr':
    yield dict(g, struct='arr')
  if g['const_col'] >= 0:
    yield dict(g, const_col=-1)
  if (g['std_min'], g['std_max']) != (1e-6, 1e6):
    yield dict(g, std_min=1e-6, std_max=1e6)
  if g['F'] > 1:
    yield dict(g, F=g['F'] - 1, offset=g['offset'][:-1],
               const_col=min(g['const_col'], g['F'] - 2))
  if g['jit']:
    yield dict(g, jit=0)
