"""C06 — contacts and joint limits are inert until reached; contacts only push.

Real code: mjcf.loads and the three native pipelines. No stubs. Sub-checks:
  separated (lock-step twin with collisions disabled, plane-geom or geom-geom),
  limits    (lock-step twin with every range removed),
  push      (penetrating body is never displaced further into the ground),
  resting   (drop, bounded sink, settles at the analytic height; dt = 1 ms),
  rebound   (sphere bounces with elasticity x impact speed; dt = 1 ms).
The separation guard is computed by the harness from link poses (closed-form
support heights / bounding spheres), never from brax's own contact distances.
"""
import math

import numpy as np

from sim import core
from sim import modelgen

ENGINE = 'c06'
FIXED_PLAN = True   # run index -> mode schedule; no runs beyond the plan
SHRINK_BUDGET = (40, 420)
PIPES = ['generalized', 'spring', 'positional']

QUICK = [('sep_plane', 32), ('sep_pair', 10), ('limits', 20),
         ('limits_cat', 72), ('push', 9), ('resting', 9), ('rebound', 8)]
THOROUGH = [('sep_plane', 450), ('sep_pair', 120), ('limits', 300),
            ('limits_cat', 288), ('push', 100), ('resting', 100),
            ('rebound', 90)]
# systematic catalogue for the limit case: one world-attached link per
# (joint stack, range placement, pipeline); which axes are limited rotates
CAT_STACKS = ['h', 's', 'hh', 'ss', 'sh', 'hhh', 'sss', 'ssh']
CAT_PLACE = ['around0', 'positive', 'negative']


def _sched(tier):
  out = []
  for mode, n in (QUICK if tier == 'quick' else THOROUGH):
    if mode == 'limits_cat':
      out += [f'limits_cat:{i}' for i in range(n)]
    else:
      out += [mode] * n
  # interleave deterministically so that every chunk sees every mode
  order = sorted(range(len(out)), key=lambda i: (i * 7919) % len(out))
  return [out[i] for i in order]


def plan(prop, tier):
  return len(_sched(tier))


def worker_class(prop, tier, run):
  return {'x64': run % 4 != 3, 'dev4': False}


def chunks_per_worker(prop, tier):
  return 3


def worker_timeout(prop, tier):
  return 3000


def det_runs(prop, tier, n):
  return max(8, n // 20)


def evidence_info(prop, tier):
  return {
      'rule': 'run = one generated scene + one pipeline (twins) or all '
              'pipelines (primitive scenes) x 4-8 lanes (initial state, control '
              'schedule, workload class far/near_approach/grazing/approach-to-'
              'limit); distinct = distinct genome hash; non-trivial = at least '
              'one guarded step was compared / one primitive history evaluated',
      'time_unit': 'simulated seconds (sum over lanes)',
      'state_measure': 'distinct (mode, pipeline, link_types, workload classes, '
                       'precision, guard stopped?) signatures',
      'components': {'real': ['brax.io.mjcf.loads', 'generalized.pipeline',
                              'spring.pipeline', 'positional.pipeline'],
                     'stub': []},
      'expected_probes': ['cls_far', 'cls_near', 'cls_graze', 'guard_stop',
                          'guarded_steps', 'gap_lt_5mm', 'limit_margin_lt_5pct',
                          'approach_stop', 'contact_became_active',
                          'push_checked', 'rest_checked', 'rebound_checked',
                          'catalogue_model'],
      'complete_subspaces': [
          'limit case catalogue: every (joint stack in h,s,hh,ss,sh,hhh,sss,ssh) '
          'x (range around 0 / entirely positive / entirely negative) x pipeline '
          'occurs as a jointed link plus a free companion body (listed after it, '
          'or as its parent) in every run of the check (quick: once, thorough: 4 '
          'variants); axes, limited axes, states are sampled'],
      'assumptions': [
          'separation guard: closed-form support height of sphere/box/capsule '
          '(plane pairs) or bounding spheres (geom pairs) from link poses of the '
          'collision-free twin, margin 1.25*|v|*dt + |g|*dt^2 + 0.3 mm before and '
          'after the step',
          'limit guard: every limited coordinate of both twins inside its range '
          'by 1e-3 (float64) / 1e-2 (float32) + 6*|qd_stack|*dt before and '
          'after the step (the positional pipeline clips an intermediate angle)',
          'resting and rebound use dt = 1 ms (the step size the property names); '
          'thresholds sink <= 6 cm, rest error <= 1 cm, |v_z| <= 0.02 m/s',
          'rebound margins are the ones stated in the property'],
  }


# ----------------------------------------------------------------- generation

def _prim(r, mode):
  shape = r.choice(['sphere', 'box', 'capsule'])
  dens = r.uniform(200, 3000)
  g = {'type': shape, 'pos': [0.0, 0.0, 0.0], 'quat': [1.0, 0.0, 0.0, 0.0],
       'density': dens, 'contype': 1, 'conaffinity': 1}
  if shape == 'sphere':
    g['size'] = [r.uniform(0.05, 0.3)]
    h = g['size'][0]
  elif shape == 'box':
    g['size'] = [r.uniform(0.05, 0.3) for _ in range(3)]
    if mode == 'resting':          # flat box: smallest extent is vertical
      g['size'].sort(reverse=True)
    h = g['size'][2]
  else:
    g['size'] = [r.uniform(0.05, 0.15), r.uniform(0.05, 0.3)]
    if mode == 'resting':          # lying capsule: axis along world x
      s = math.sqrt(0.5)
      g['quat'] = [s, 0.0, s, 0.0]
      h = g['size'][0]
    else:
      h = g['size'][0] + g['size'][1]
  return g, h


def _prim_model(r, mode, dt, gravity=(0.0, 0.0, -9.81), elasticity=None):
  g, h = _prim(r, mode)
  m = {'links': [{'parent': -1, 'root': 'free', 'pos': [0.0, 0.0, 1.0],
                  'quat': [1.0, 0.0, 0.0, 0.0], 'anchor': [0.0] * 3,
                  'joints': [], 'geoms': [g]}],
       'acts': [], 'dt': dt, 'gravity': list(gravity), 'plane': True,
       'plane_ct': [1, 1]}
  if elasticity is not None:
    m['elasticity'] = elasticity
  return m, h


def generate(prop, tier, seed, run):
  r = core.run_rng(seed, ENGINE, run)
  mode = _sched(tier)[run]
  wc = worker_class(prop, tier, run)
  B = r.choice([4, 6, 8])
  pipe = PIPES[(run + r.randint(0, 2)) % 3]
  if mode == 'sep_plane':
    model = modelgen.gen_model(
        r, roots=r.choice(['free', 'free', 'mixed']), collide=(1, 2), plane=True,
        plane_ct=(2, 1), max_links=4 if tier == 'quick' else 6,
        gravity=[r.uniform(-1, 1), r.uniform(-1, 1), -r.uniform(2, 10)],
        height=1.2)
    lanes = [{'seed': r.randint(0, 2**31 - 1),
              'cls': r.choice(['far', 'near', 'near', 'graze']),
              'v': r.uniform(0.0, 3.0), 'gapf': r.uniform(1.05, 3.0),
              'ctrl': r.choice(['random', 'bang', 'zero'])} for _ in range(B)]
    if pipe == 'positional':
      # the positional pipeline queries contacts on its predicted positions; a
      # stiff spring / actuator on a light link can throw the prediction far
      # beyond 2*|v|*dt, so this pipeline gets no springs and no actuators
      model['acts'] = []
      for l in model['links']:
        for j in l['joints']:
          j.pop('stiffness', None)
    return {'mode': mode, 'pipeline': pipe, 'model': model,
            'T': r.choice([1, 3, 8, 20]), 'lanes': lanes, 'x64': wc['x64']}
  if mode == 'sep_pair':
    ga = modelgen.gen_geom(r, (1, 1))
    gb = modelgen.gen_geom(r, (1, 1))
    model = {'links': [
        {'parent': -1, 'root': 'free', 'pos': [0.0, 0.0, 0.0],
         'quat': modelgen.rand_quat(r), 'anchor': [0.0] * 3, 'joints': [],
         'geoms': [ga]},
        {'parent': -1, 'root': 'free', 'pos': [1.0, 0.0, 0.0],
         'quat': modelgen.rand_quat(r), 'anchor': [0.0] * 3, 'joints': [],
         'geoms': [gb]}],
        'acts': [], 'dt': r.choice([0.0005, 0.001, 0.002, 0.004]),
        'gravity': [r.uniform(-2, 2), r.uniform(-2, 2), r.uniform(-10, 10)],
        'plane': False, 'plane_ct': [0, 0]}
    lanes = [{'seed': r.randint(0, 2**31 - 1),
              'cls': r.choice(['far', 'near', 'near', 'graze']),
              'v': r.uniform(0.0, 3.0), 'gapf': r.uniform(1.05, 3.0)}
             for _ in range(B)]
    return {'mode': mode, 'pipeline': pipe, 'model': model,
            'T': r.choice([1, 3, 8, 20]), 'lanes': lanes, 'x64': wc['x64']}
  if mode.startswith('limits_cat'):
    idx = int(mode.split(':')[1])
    stack = CAT_STACKS[idx % 8]
    place = CAT_PLACE[(idx // 8) % 3]
    pipe = PIPES[(idx // 24) % 3]
    n = len(stack)
    R = modelgen.quat_to_mat(modelgen.rand_quat(r))
    if r.random() < 0.5:
      for row in R:
        row[2] = -row[2]
    perm = [0, 1, 2]
    r.shuffle(perm)
    which = r.choice([[k] for k in range(n)] + [list(range(n))])
    joints = []
    for k, ch in enumerate(stack):
      j = {'type': 'hinge' if ch == 'h' else 'slide',
           'axis': [R[0][perm[k]], R[1][perm[k]], R[2][perm[k]]]}
      if k in which:
        if place == 'around0':
          j['range'] = [-r.uniform(0.3, 1.2), r.uniform(0.3, 1.2)]
        else:
          lo_ = r.uniform(0.05, 0.5)
          rg = [lo_, lo_ + r.uniform(0.3, 0.8)]
          j['range'] = rg if place == 'positive' else [-rg[1], -rg[0]]
      if r.random() < 0.3:
        j['damping'] = r.uniform(0.05, 1.0)
      joints.append(j)
    link = {'parent': -1, 'root': 'world',
            'pos': [r.uniform(-0.3, 0.3), r.uniform(-0.3, 0.3), 1.0],
            'quat': modelgen.rand_quat(r),
            'anchor': [r.uniform(-0.1, 0.1) for _ in range(3)]
            if r.random() < 0.5 else [0.0, 0.0, 0.0],
            'joints': joints, 'geoms': [modelgen.gen_geom(r, (0, 0))]}
    # companion free body (never colliding): listed after the jointed link in
    # half of the catalogue (a free joint *behind* limited joints in link
    # order), as the parent of the jointed link in the other half
    free = {'parent': -1, 'root': 'free', 'pos': [2.0, r.uniform(-0.5, 0.5), 1.5],
            'quat': modelgen.rand_quat(r), 'anchor': [0.0, 0.0, 0.0],
            'joints': [], 'geoms': [modelgen.gen_geom(r, (0, 0))]}
    if (idx // 8 + idx) % 2 == 0:
      links = [link, free]
    else:
      link.update({'parent': 0, 'root': None,
                   'pos': [r.uniform(-0.3, 0.3), r.uniform(-0.3, 0.3), -0.3]})
      links = [free, link]
    model = {'links': links, 'acts': [], 'dt': r.choice([0.0005, 0.001, 0.002, 0.004]),
             'gravity': [r.uniform(-2, 2), r.uniform(-2, 2), r.uniform(-10, 10)],
             'plane': False, 'plane_ct': [0, 0]}
    lanes = [{'seed': r.randint(0, 2**31 - 1),
              'cls': r.choice(['inside', 'approach']), 'ctrl': 'zero',
              'qd': r.choice([0.0, 0.3, 1.0])} for _ in range(6)]
    return {'mode': 'limits', 'pipeline': pipe, 'model': model, 'T': 8,
            'lanes': lanes, 'x64': wc['x64'],
            'cat': {'stack': stack, 'place': place, 'limited': which,
                    'free_body': 'after' if (idx // 8 + idx) % 2 == 0 else 'parent'}}
  if mode == 'limits':
    for _ in range(50):
      # no joint springs, motors only and zero control: the positional pipeline
      # evaluates limits on its *predicted* (integrated, not yet projected)
      # positions, so a stiff spring or actuator on a light link can reach a
      # limit inside one step although q is inside before and after it; with
      # velocity-independent accelerations bounded by gravity the guard margin
      # 6*|qd|*dt is valid (DESIGN 11.2)
      model = modelgen.gen_model(
          r, roots=r.choice(['free', 'world', 'mixed']), collide=(0, 0),
          max_links=4 if tier == 'quick' else 6, limit_p=0.8, shift_p=0.5,
          springs=False, pos_act=False)
      if any('range' in j for l in model['links'] for j in l['joints']):
        break
    lanes = [{'seed': r.randint(0, 2**31 - 1),
              'cls': r.choice(['inside', 'approach', 'approach']),
              'ctrl': 'zero',
              'qd': r.choice([0.3, 1.0, 3.0])} for _ in range(B)]
    return {'mode': mode, 'pipeline': pipe, 'model': model,
            'T': r.choice([1, 3, 8, 20]), 'lanes': lanes, 'x64': wc['x64']}
  if mode == 'push':
    grav = r.random() < 0.5
    model, h = _prim_model(r, mode, r.choice([0.001, 0.002, 0.004]),
                           (0.0, 0.0, -9.81) if grav else (0.0, 0.0, 0.0))
    lanes = [{'seed': r.randint(0, 2**31 - 1), 'depth': r.uniform(0.002, 0.02)}
             for _ in range(8)]
    return {'mode': mode, 'model': model, 'T': 1, 'lanes': lanes,
            'x64': wc['x64']}
  if mode == 'resting':
    model, h = _prim_model(r, mode, 0.001)
    lanes = [{'seed': r.randint(0, 2**31 - 1), 'drop': r.choice(
        [0.0, r.uniform(0.0, 0.05), r.uniform(0.0, 0.5)])} for _ in range(4)]
    return {'mode': mode, 'model': model, 'h': h, 'T': 3000, 'lanes': lanes,
            'x64': wc['x64']}
  # rebound
  e = r.choice([0.0, r.uniform(0.0, 0.9), r.uniform(0.0, 0.9)])
  model, h = _prim_model(r, 'rebound', 0.001, elasticity=e)
  g = model['links'][0]['geoms'][0]
  g.update({'type': 'sphere', 'size': [r.uniform(0.05, 0.3)],
            'quat': [1.0, 0.0, 0.0, 0.0]})
  lanes = [{'seed': r.randint(0, 2**31 - 1), 'drop': r.uniform(0.2, 1.0)}
           for _ in range(4)]
  return {'mode': 'rebound', 'model': model, 'e': e, 'lanes': lanes,
          'T': int((math.sqrt(2 * 1.0 / 9.81) + 0.15) / 0.001),
          'x64': wc['x64']}


# ------------------------------------------------------------------ execution

def canon_cat(c):
  return None if not c else (c['stack'], c['place'], tuple(c['limited']),
                             c.get('free_body'))


def _traj_fn(P, sys, T):
  """(q0, qd0, ctrl[T]) -> arrays with leading T+1 (incl. the initial state)."""
  import jax
  import jax.numpy as jp

  def pack(s):
    return (s.q, s.qd, s.x.pos, s.x.rot, s.xd.vel, s.xd.ang)

  def run(q, qd, ctrl):
    st = P.init(sys, q, qd)

    def body(st, c):
      ns = P.step(sys, st, c)
      return ns, pack(ns)
    _, out = jax.lax.scan(body, st, ctrl, length=T)
    return jax.tree_util.tree_map(
        lambda a, b: jp.concatenate([a[None], b]), pack(st), out)
  return run


def _ctrl(rng, kind, T, nu):
  if nu == 0 or kind == 'zero':
    return np.zeros((T, nu))
  if kind == 'bang':
    return rng.choice([-1.0, 1.0], (T, nu))
  return rng.uniform(-1, 1, (T, nu))


def _tols(x64):
  return (1e-9, 1e-9) if x64 else (1e-4, 2e-6)


def _compare(ctx, g, sig, A, Bt, ok, x64, oracle):
  """A, Bt: tuples of arrays [lanes, T+1, ...]; ok[lane] = number of guarded
  steps. Compares steps 1..ok and checks unit quaternions on both."""
  tol, rtol = _tols(x64)
  names = ['q', 'qd', 'x.pos', 'x.rot', 'xd.vel', 'xd.ang']
  nl = A[0].shape[0]
  worst = 0.0
  for b in range(nl):
    n = int(ok[b])
    if n <= 0:
      continue
    if not x64:
      # the twins are two different float32 programs that are never
      # re-synchronised: round-off differences grow step by step (seen: 1e-4
      # after 5 spring steps). float32 therefore compares the first step only
      # (dtype-specific breakage); float64 compares every guarded step.
      n_cmp = 1
    else:
      n_cmp = n
    ctx.probe('guarded_steps', n)
    ctx.nontrivial = True
    for k, name in enumerate(names):
      a, c = A[k][b, 1:n_cmp + 1], Bt[k][b, 1:n_cmp + 1]
      if a.size == 0:
        continue
      if name == 'x.rot':   # quaternion sign is not observable
        sgn = np.sign(np.sum(a * c, axis=-1, keepdims=True))
        sgn[sgn == 0] = 1
        c = c * sgn
      with np.errstate(invalid='ignore', over='ignore'):
        diff = np.abs(a - c).reshape(n_cmp, -1).max(1)
        scale = 1.0 + np.maximum(np.abs(a).reshape(n_cmp, -1).max(1),
                                 np.abs(c).reshape(n_cmp, -1).max(1))
        rel = diff / scale
      fin = np.isfinite(rel)
      if not fin.all():
        # both diverged the same way is fine; one finite one not is a difference
        bad_t = int(np.argwhere(~fin)[0][0])
        if np.isfinite(a[bad_t]).all() != np.isfinite(c[bad_t]).all():
          ctx.violate(oracle, bad_t + 1, sig, {
              'lane': b, 'step': bad_t, 'field': name,
              'what': 'one twin is finite, the other is not'})
          return False
        rel = rel[:bad_t]
        if rel.size == 0:
          continue
      worst = max(worst, float(rel.max()))
      if (rel > tol).any():
        t = int(np.argwhere(rel > tol)[0][0])
        ctx.violate(oracle, t + 1, sig, {
            'lane': b, 'step': t, 'field': name, 'rel_diff': float(rel[t]),
            'abs_diff': float(diff[t]), 'tol': tol, 'guarded_steps': n,
            'cls': g['lanes'][b].get('cls'),
            'precision': 'x64' if x64 else 'f32'})
        return False
    for which, arr in (('with', A[3]), ('without', Bt[3])):
      rot = arr[b, :n + 1]
      with np.errstate(invalid='ignore'):
        dev = np.abs(np.linalg.norm(rot, axis=-1) - 1)
      dev = np.where(np.isfinite(dev), dev, 0)
      if (dev > rtol).any():
        t = int(np.argwhere(dev > rtol)[0][0])
        ctx.violate(oracle.split('.')[0] + '.rot_unit', t, sig, {
            'lane': b, 'step': t, 'twin': which,
            'deviation': float(dev.max()), 'tol': rtol,
            'precision': 'x64' if x64 else 'f32'})
        return False
  ctx.probe_max('max:twin_diff_over_tol/' + sig.split('/')[0] +
                ('/x64' if x64 else '/f32'), worst / tol)
  return True


def _run_twin(g, ctx, x64):
  import jax
  import jax.numpy as jp
  from sim import worldlib as wl
  mode, pipe = g['mode'], g['pipeline']
  P = wl.pipelines()[pipe]
  sig = f'{pipe}/{mode}'
  model = g['model']
  with ctx.under_test('raises', 0, sig + '/load'):
    sysA = wl.load(model)
    sysB = wl.load(model, collide_off=True) if mode != 'limits' else \
        wl.load(model, strip_limits=True)
  if ctx.violations:
    return
  T = g['T']
  dt = float(sysA.opt.timestep)
  lanes = g['lanes']
  nl = len(lanes)
  nq, nv, nu = sysA.q_size(), sysA.qd_size(), sysA.act_size()
  layout = wl.q_layout(sysA)
  free_q = [qi for (t, qi, di) in layout if t == 'f']
  lo, hi = wl.dof_limits(sysA)
  q0 = np.zeros((nl, nq))
  qd0 = np.zeros((nl, nv))
  ctrl = np.zeros((nl, T, nu))
  for b, lane in enumerate(lanes):
    rng = np.random.default_rng(lane['seed'])
    ctx.fault('cls_' + lane['cls'])
    ctrl[b] = _ctrl(rng, lane.get('ctrl', 'zero'), T, nu)
    if mode == 'limits':
      q0[b] = wl.sample_q(sysA, rng, 1, qmax=1.0, inside_limits=True,
                          margin=0.05)[0]
      qd0[b] = rng.uniform(-1, 1, nv) * lane['qd']
      if lane['cls'] == 'approach':
        # start 3-20 % of the range away from a bound, moving towards it
        for (t, qi, di) in layout:
          if t == 'f':
            continue
          for k in range(int(t)):
            if np.isfinite(lo[di + k]) and rng.random() < 0.7:
              w = hi[di + k] - lo[di + k]
              f = rng.uniform(0.03, 0.2)
              if rng.random() < 0.5:
                q0[b, qi + k] = lo[di + k] + f * w
                qd0[b, di + k] = -abs(qd0[b, di + k]) - 0.2
              else:
                q0[b, qi + k] = hi[di + k] - f * w
                qd0[b, di + k] = abs(qd0[b, di + k]) + 0.2
    else:
      q0[b] = wl.sample_q(sysA, rng, 1, qmax=0.5, inside_limits=True,
                          margin=0.1, root_pos=0.2)[0]
      qd0[b] = rng.uniform(-0.3, 0.3, nv)
  # ------------------------------------------------- place the scene (harness)
  geoms = wl.geom_table(model)
  if mode == 'sep_plane':
    initB = jax.jit(jax.vmap(lambda q, qd: P.init(sysB, q, qd).x))
    x0 = initB(jp.asarray(q0), jp.asarray(qd0))
    xpos, xrot = np.asarray(x0.pos), np.asarray(x0.rot)
    parents = [l['parent'] for l in model['links']]

    def root_of(i):
      while parents[i] != -1:
        i = parents[i]
      return i
    # indexed by link index of the loaded system (emission order)
    free_link = [model['links'][root_of(i)]['root'] == 'free'
                 for i in modelgen.emission_order(model)]
    for b, lane in enumerate(lanes):
      cf = [float(wl.plane_clearance(gt, sz, gp, gq, xpos[b, li], xrot[b, li]))
            for (li, gt, sz, gp, gq, ct, ca) in geoms if free_link[li]]
      if not cf:
        continue
      v = lane['v'] if lane['cls'] == 'near' else 0.0
      margin = 2 * (v + 1.0) * dt + 1e-3
      if lane['cls'] == 'far':
        gap = 0.2 + 0.5 * lane['gapf']
      elif lane['cls'] == 'near':
        gap = margin * lane['gapf']
      else:
        gap = 0.001 + 0.004 * (lane['gapf'] - 1.05) / 1.95 + 2 * 1.0 * dt + 1e-3
      shift = gap - min(cf)
      rng = np.random.default_rng(lane['seed'] + 1)
      for qi in free_q:
        q0[b, qi + 2] += shift
      for (t, qi, di) in layout:
        if t == 'f':
          if lane['cls'] == 'near':
            qd0[b, di + 2] = -v
          elif lane['cls'] == 'graze':
            qd0[b, di:di + 2] = rng.uniform(-2, 2, 2)
            qd0[b, di + 2] = 0.0
  elif mode == 'sep_pair':
    ra = wl.bounding_radius(geoms[0][1], geoms[0][2])
    rb = wl.bounding_radius(geoms[1][1], geoms[1][2])
    for b, lane in enumerate(lanes):
      rng = np.random.default_rng(lane['seed'] + 1)
      v = lane['v'] if lane['cls'] == 'near' else 0.0
      margin = 2 * (v + 1.0) * dt + 1e-3
      gap = {'far': 0.3, 'near': margin * lane['gapf'],
             'graze': margin * lane['gapf']}[lane['cls']]
      q = np.asarray(sysA.init_q, float).copy()
      q[3:7] = wl.rand_quat(rng)
      q[10:14] = wl.rand_quat(rng)
      # geom centres: link pos + R * gpos; put centres `d` apart along x
      ca = wl.quat_rot_np(q[3:7], geoms[0][3])
      cb = wl.quat_rot_np(q[10:14], geoms[1][3])
      d = ra + rb + gap
      q[0:3] = -ca
      q[7:10] = np.array([d, 0.0, 0.0]) - cb
      q0[b] = q
      qd = np.zeros(nv)
      if lane['cls'] == 'near':
        qd[0], qd[6] = 0.5 * v, -0.5 * v
      elif lane['cls'] == 'graze':
        qd[1], qd[7] = rng.uniform(-2, 2), rng.uniform(-2, 2)
      qd0[b] = qd
  ctx.log.inp('twin', [q0, qd0, ctrl])
  ctx.notes['q0'] = q0[:2].tolist()
  ctx.notes['qd0'] = qd0[:2].tolist()
  with ctx.under_test('raises', 0, sig + '/init_step'):
    fa = jax.jit(jax.vmap(_traj_fn(P, sysA, T)))
    fb = jax.jit(jax.vmap(_traj_fn(P, sysB, T)))
    A = [np.asarray(o) for o in fa(jp.asarray(q0), jp.asarray(qd0), jp.asarray(ctrl))]
    Bt = [np.asarray(o) for o in fb(jp.asarray(q0), jp.asarray(qd0), jp.asarray(ctrl))]
  if ctx.violations:
    return
  ctx.log.out('twin', [A[0], A[1], Bt[0], Bt[1]])
  ctx.steps = nl * T
  ctx.sim_time = nl * T * dt
  # ------------------------------------------------------------------- guards
  ok = np.zeros(nl, int)
  if mode == 'limits':
    m = 1e-3 if x64 else 1e-2
    qidx, didx = [], []
    for (t, qi, di) in layout:
      if t != 'f':
        for k in range(int(t)):
          if np.isfinite(lo[di + k]):
            qidx.append(qi + k)
            didx.append(di + k)
    if not qidx:
      ctx.probe('no_limited_joint')
      return
    lo_, hi_ = lo[didx], hi[didx]
    # per limited coordinate: qd indices of the whole joint stack it belongs to
    stack = []
    for (t, qi, di) in layout:
      if t != 'f':
        for k in range(int(t)):
          if np.isfinite(lo[di + k]):
            stack.append(list(range(di, di + int(t))))

    def inside(t, b):
      """Conservative: the coordinate plus the distance it can travel within
      one step (positional pipeline clips an intermediate, integrated angle)
      stays inside the range; factor 3 covers Euler-angle rate amplification
      for |q| <= 1.2."""
      for arr in (A, Bt):
        q = arr[0][b, t][qidx]
        qd = arr[1][b, t]
        sp = np.array([np.linalg.norm(qd[s_]) for s_ in stack])
        mm = m + 6.0 * sp * dt
        if not (np.all(q > lo_ + mm) and np.all(q < hi_ - mm)):
          return False
      return True
    for b in range(nl):
      n = 0
      for t in range(T + 1):
        if not np.all(np.isfinite(A[0][b, t])) or not inside(t, b):
          break
        n = t
        qa = A[0][b, t][qidx]
        w = hi_ - lo_
        if (np.minimum(qa - lo_, hi_ - qa) < 0.05 * w).any():
          ctx.probe('limit_margin_lt_5pct')
      ok[b] = n
      if n < T:
        ctx.probe('approach_stop' if lanes[b]['cls'] == 'approach'
                  else 'guard_stop')
    oracle = 'limits.state'
  else:
    # speeds and poses of the collision-free twin decide the guard. The
    # positional pipeline evaluates contacts on its predicted pose (one free
    # integration ahead), so the gap must exceed the distance a geom point can
    # travel in one step: sp*dt (sp is an upper bound of the point speed) plus
    # the gravity term; factor 1.25 and 0.3 mm are the safety margin. (The first
    # version used 2*sp*dt + 1 mm, which hid seeded change c06-04 whose effect
    # lives at gaps between 1 and 2 times |v|*dt.)
    GUARD_K, GUARD_ABS = 1.25, 3e-4
    gacc = float(np.linalg.norm(np.asarray(sysA.gravity)))
    xpos, xrot, xv, xw = Bt[2], Bt[3], Bt[4], Bt[5]
    xposA, xrotA, xvA, xwA = A[2], A[3], A[4], A[5]
    def separated(b, t, with_speed):
      """Conservative separation of every candidate pair in state t of lane b
      (both twins). with_speed: the state a step starts from (the gap must
      exceed what a geom point can travel in one step); otherwise the state a
      step ends in (still separated, absolute margin only)."""
      for (P_, R_, V_, W_) in ((xpos, xrot, xv, xw), (xposA, xrotA, xvA, xwA)):
        if mode == 'sep_plane':
          for (li, gt, sz, gp, gq, ct, ca) in geoms:
            cl = float(wl.plane_clearance(gt, sz, gp, gq, P_[b, t, li],
                                          R_[b, t, li]))
            if not np.isfinite(cl):
              return False
            m_ = GUARD_ABS
            if with_speed:
              reach = np.linalg.norm(gp) + wl.bounding_radius(gt, sz)
              sp = np.linalg.norm(V_[b, t, li]) + \
                  np.linalg.norm(W_[b, t, li]) * reach
              m_ += GUARD_K * sp * dt + gacc * dt * dt
            if not cl > m_:
              return False
            if cl < 0.005:
              ctx.probe('gap_lt_5mm')
        else:
          ca_ = P_[b, t, 0] + wl.quat_rot_np(R_[b, t, 0], geoms[0][3])
          cb_ = P_[b, t, 1] + wl.quat_rot_np(R_[b, t, 1], geoms[1][3])
          dist = np.linalg.norm(ca_ - cb_) - ra - rb
          m_ = GUARD_ABS
          if with_speed:
            sp = (np.linalg.norm(V_[b, t, 0]) + np.linalg.norm(V_[b, t, 1]) +
                  np.linalg.norm(W_[b, t, 0]) * (ra + np.linalg.norm(geoms[0][3])) +
                  np.linalg.norm(W_[b, t, 1]) * (rb + np.linalg.norm(geoms[1][3])))
            m_ += GUARD_K * sp * dt + 2 * gacc * dt * dt
          if not dist > m_:
            return False
          if dist < 0.005:
            ctx.probe('gap_lt_5mm')
      return True
    for b in range(nl):
      n = 0
      for t in range(T):
        # step t -> t+1 is compared iff it starts separated with the speed
        # margin and ends still separated
        if not (separated(b, t, True) and separated(b, t + 1, False)):
          break
        n = t + 1
      ok[b] = n
      if n < T:
        ctx.probe('guard_stop')
        # did the contact actually engage afterwards? (probe only)
        d = np.abs(A[0][b, n + 1:] - Bt[0][b, n + 1:])
        if d.size and np.nanmax(d) > 1e-6:
          ctx.probe('contact_became_active')
    oracle = 'separated.state'
  ctx.state((mode, pipe, sysA.link_types, sorted({l['cls'] for l in lanes}),
             x64, bool((ok < T).any()), canon_cat(g.get('cat'))))
  if g.get('cat'):
    ctx.probe('catalogue_model')
  _compare(ctx, g, sig, A, Bt, ok, x64, oracle)


def _com_z(sys, xpos, xrot):
  from sim import worldlib as wl
  off = np.asarray(sys.link.inertia.transform.pos)[0]
  return (xpos + wl.quat_rot_np(xrot, off))[..., 2]


def _run_push(g, ctx, x64):
  import jax
  import jax.numpy as jp
  from sim import worldlib as wl
  model = g['model']
  sys = wl.load(model)
  dt = float(sys.opt.timestep)
  gz = float(sys.gravity[2])
  geom = wl.geom_table(model)[0]
  nl = len(g['lanes'])
  q0 = np.zeros((nl, 7))
  plocal = []
  for b, lane in enumerate(g['lanes']):
    rng = np.random.default_rng(lane['seed'])
    quat = wl.rand_quat(rng)
    q = np.array([rng.uniform(-1, 1), rng.uniform(-1, 1), 0.0, *quat])
    cl = float(wl.plane_clearance(geom[1], geom[2], geom[3], geom[4],
                                  q[0:3], q[3:7]))
    q[2] = -cl - lane['depth']
    q0[b] = q
    ctx.fault('initial_penetration')
    pw = wl.lowest_point(geom[1], geom[2], geom[3], geom[4], q[0:3], q[3:7])
    assert abs(pw[2] + lane['depth']) < 1e-9, (pw, lane['depth'])
    plocal.append(wl.to_local(q[0:3], q[3:7], pw))
  ctx.log.inp('push', q0)
  eps = 1e-9 if x64 else 2e-6
  for name, P in wl.pipelines().items():
    sig = f'{name}/push/{geom[1]}'

    def run(q):
      st = P.init(sys, q, jp.zeros(6))
      ns = P.step(sys, st, jp.zeros(0))
      return st.x.pos[0], st.x.rot[0], ns.x.pos[0], ns.x.rot[0], ns.xd.vel[0]
    with ctx.under_test('raises', 0, sig + '/init_step'):
      out = [np.asarray(o) for o in jax.jit(jax.vmap(run))(jp.asarray(q0))]
    if ctx.violations:
      return
    ctx.log.out('push/' + name, out)
    z0 = _com_z(sys, out[0], out[1])
    z1 = _com_z(sys, out[2], out[3])
    dz = z1 - z0
    ctx.steps += nl
    ctx.sim_time += nl * dt
    ctx.probe('push_checked', nl)
    ctx.probe('pushed_out', int((dz > 1e-6).sum()))
    ctx.state(('push', name, geom[1], gz != 0, x64))
    ctx.nontrivial = True
    bad = np.argwhere(~(dz >= gz * dt * dt - eps))
    if len(bad):
      b = int(bad[0][0])
      ctx.violate('push.displacement', 1, sig, {
          'lane': b, 'dz_com': float(dz[b]), 'free_fall_dz': gz * dt * dt,
          'depth': g['lanes'][b]['depth'], 'shape': geom[1], 'dt': dt,
          'precision': 'x64' if x64 else 'f32'})
      return
    # the material point that was deepest in the ground must not end lower
    # than free motion would take it (0.1 mm slack)
    pl = np.stack(plocal)
    p0 = out[0] + wl.quat_rot_np(out[1], pl)
    p1 = out[2] + wl.quat_rot_np(out[3], pl)
    dzp = p1[:, 2] - p0[:, 2]
    ctx.probe_max('max:neg_min_point_push_mm/' + name, float(-1000 * dzp.min()))
    badp = np.argwhere(~(dzp >= gz * dt * dt - 1e-4))
    if len(badp):
      b = int(badp[0][0])
      ctx.violate('push.point', 1, sig, {
          'lane': b, 'dz_deepest_point': float(dzp[b]), 'dz_com': float(dz[b]),
          'free_fall_dz': gz * dt * dt, 'depth': g['lanes'][b]['depth'],
          'shape': geom[1], 'size': geom[2], 'quat': q0[b, 3:7].tolist(),
          'dt': dt, 'precision': 'x64' if x64 else 'f32'})
      return


def _run_resting(g, ctx, x64):
  import jax
  import jax.numpy as jp
  from sim import worldlib as wl
  model, h, T = g['model'], g['h'], g['T']
  sys = wl.load(model)
  dt = float(sys.opt.timestep)
  geom = wl.geom_table(model)[0]
  nl = len(g['lanes'])
  q0 = np.tile(np.asarray(sys.init_q, float), (nl, 1))
  for b, lane in enumerate(g['lanes']):
    q0[b, 2] = h + lane['drop']
    ctx.fault('impact' if lane['drop'] > 0.01 else 'placed_at_rest')
  ctx.log.inp('resting', q0)
  tail = int(0.5 / dt)
  for name, P in wl.pipelines().items():
    sig = f'{name}/resting/{geom[1]}'

    def run(q):
      st = P.init(sys, q, jp.zeros(6))

      def body(st, _):
        ns = P.step(sys, st, jp.zeros(0))
        return ns, (ns.x.pos[0, 2], ns.xd.vel[0, 2])
      return jax.lax.scan(body, st, None, length=T)[1]
    with ctx.under_test('raises', 0, sig + '/init_step'):
      z, vz = [np.asarray(o) for o in jax.jit(jax.vmap(run))(jp.asarray(q0))]
    if ctx.violations:
      return
    ctx.log.out('resting/' + name, [z[:, ::100], vz[:, ::100]])
    ctx.steps += nl * T
    ctx.sim_time += nl * T * dt
    ctx.probe('rest_checked', nl)
    ctx.nontrivial = True
    ctx.state(('resting', name, geom[1], x64))
    sink = h - np.nanmin(z, axis=1)
    rest = np.abs(z[:, -tail:] - h).max(1)
    vend = np.abs(vz[:, -tail:]).max(1)
    ctx.probe_max(f'max:sink_m/{name}', float(sink.max()))
    ctx.probe_max(f'max:rest_err_m/{name}', float(rest.max()))
    ctx.probe_max(f'max:rest_vz/{name}', float(vend.max()))
    for b in range(nl):
      d = {'lane': b, 'shape': geom[1], 'size': geom[2], 'h': h,
           'drop': g['lanes'][b]['drop'], 'density': model['links'][0]['geoms'][0]['density'],
           'precision': 'x64' if x64 else 'f32'}
      if not np.isfinite(z[b]).all():
        ctx.violate('rest.height', int(np.argwhere(~np.isfinite(z[b]))[0][0]),
                    sig, dict(d, what='non-finite height'))
        return
      if not sink[b] <= 0.06:
        ctx.violate('rest.sink', int(np.argmin(z[b])), sig,
                    dict(d, sink=float(sink[b]), limit=0.06))
        return
      if not rest[b] <= 0.01:
        ctx.violate('rest.height', T - 1, sig,
                    dict(d, rest_error=float(rest[b]), limit=0.01))
        return
      if not vend[b] <= 0.02:
        ctx.violate('rest.velocity', T - 1, sig,
                    dict(d, vz=float(vend[b]), limit=0.02))
        return


def _run_rebound(g, ctx, x64):
  import jax
  import jax.numpy as jp
  from sim import worldlib as wl
  model, e, T = g['model'], g['e'], g['T']
  sys = wl.load(model)
  dt = float(sys.opt.timestep)
  r = model['links'][0]['geoms'][0]['size'][0]
  nl = len(g['lanes'])
  q0 = np.tile(np.asarray(sys.init_q, float), (nl, 1))
  for b, lane in enumerate(g['lanes']):
    q0[b, 2] = r + lane['drop']
    ctx.fault('impact')
  ctx.log.inp('rebound', q0)
  margins = {'spring': (-0.02, 0.2), 'positional': (-0.02, 0.02)}
  for name in ('spring', 'positional'):
    P = wl.pipelines()[name]
    sig = f'{name}/rebound'

    def run(q):
      st = P.init(sys, q, jp.zeros(6))

      def body(st, _):
        ns = P.step(sys, st, jp.zeros(0))
        return ns, ns.xd.vel[0, 2]
      return jax.lax.scan(body, st, None, length=T)[1]
    with ctx.under_test('raises', 0, sig + '/init_step'):
      vz = np.asarray(jax.jit(jax.vmap(run))(jp.asarray(q0)))
    if ctx.violations:
      return
    ctx.log.out('rebound/' + name, vz[:, ::20])
    ctx.steps += nl * T
    ctx.sim_time += nl * T * dt
    ctx.probe('rebound_checked', nl)
    ctx.nontrivial = True
    ctx.state(('rebound', name, round(e, 1), x64))
    for b in range(nl):
      i = int(np.argmin(vz[b]))
      vin = -float(vz[b, i])
      vout = float(vz[b, i:].max())
      ratio = max(vout, 0.0) / vin if vin > 0 else float('nan')
      dev = ratio - e
      ctx.probe_max(f'max:rebound_dev_hi/{name}', dev)
      ctx.probe_max(f'max:rebound_dev_lo/{name}', -dev)
      lo_, hi_ = margins[name]
      if not (lo_ <= dev <= hi_):
        ctx.violate('rebound.ratio', i, sig, {
            'lane': b, 'v_in': vin, 'v_out': vout, 'ratio': ratio,
            'elasticity': e, 'deviation': dev, 'allowed': [lo_, hi_],
            'radius': r, 'drop': g['lanes'][b]['drop'],
            'precision': 'x64' if x64 else 'f32'})
        return


def execute(g, ctx):
  import jax
  x64 = bool(jax.config.jax_enable_x64)
  assert x64 == bool(g['x64'])
  mode = g['mode']
  if mode in ('sep_plane', 'sep_pair', 'limits'):
    _run_twin(g, ctx, x64)
  elif mode == 'push':
    _run_push(g, ctx, x64)
  elif mode == 'resting':
    _run_resting(g, ctx, x64)
  else:
    _run_rebound(g, ctx, x64)
  m = g['model']
  return {'mode': mode, 'pipeline': g.get('pipeline', 'all'),
          'cat': g.get('cat'),
          'n_links': len(m['links']), 'dt': m['dt'], 'T': g['T'],
          'lanes': g['lanes'][:2], 'x64': g['x64'],
          'geom0': m['links'][0]['geoms'][0]['type']}


def shrink_candidates(g, oracle):
  if len(g['lanes']) > 1:
    for i in range(len(g['lanes'])):
      yield dict(g, lanes=[g['lanes'][i]])
  if g['mode'] in ('sep_plane', 'sep_pair', 'limits') and g['T'] > 1:
    for t in (1, g['T'] // 2):
      if 0 < t < g['T']:
        yield dict(g, T=t)
  if g['mode'] in ('sep_plane', 'limits'):
    for m in modelgen.shrink_model(g['model']):
      if g['mode'] == 'limits' and not any(
          'range' in j for l in m['links'] for j in l['joints']):
        continue
      yield dict(g, model=m)
