"""C17 — replay buffers as bounded FIFO queues (engine `queue`).

Real code: brax.training.replay_buffers Queue / UniformSamplingQueue /
PmapWrapper / PjitWrapper on 4 forced host devices. Oracle: QueueModel per
shard, unique serial numbers with checksums in every record.
"""
import copy

from sim import core
from sim.refmodels import QueueModel

ENGINE = 'queue'
SHRINK_BUDGET = (700, 300)

# ------------------------------------------------------------------- planning

TREE_QUICK = [(cap, B, cyc, 'none', 1) for cap in (1, 2, 3) for B in (1, 2, 3, 4)
              for cyc in (0, 1)] + \
             [(cap, B, cyc, w, 2) for cap in (1, 2) for B in (1, 2) for cyc in (0, 1)
              for w in ('pmap', 'pjit')]
TREE_DEPTH_QUICK = {'none': 5, 'pmap': 3, 'pjit': 3}
TREE_DEPTH_THOROUGH = {'none': 7, 'pmap': 5, 'pjit': 5}


def _tree_runs(tier):
  """Systematic prefix: every op sequence up to a depth, walked as a tree.
  Each run is one (config, first-op) subtree so that subtrees run in parallel."""
  runs = []
  if tier == 'quick':
    for (cap, B, cyc, w, D) in TREE_QUICK:
      runs.append({'cap': cap, 'B': B, 'cyclic': cyc, 'wrapper': w, 'D': D,
                   'depth': TREE_DEPTH_QUICK[w], 'first': None})
  else:
    for cap in (1, 2, 3, 4, 5):
      for B in (1, 2, 3, 4):
        for cyc in (0, 1):
          for first in range(0, cap + 1):   # 0 = sample, k = insert k
            runs.append({'cap': cap, 'B': B, 'cyclic': cyc, 'wrapper': 'none',
                         'D': 1, 'depth': 7, 'first': first})
    for cap in (1, 2, 3):
      for B in (1, 2, 3):
        for cyc in (0, 1):
          for (w, D) in (('pmap', 2), ('pmap', 4), ('pjit', 2), ('pjit', 4)):
            runs.append({'cap': cap, 'B': B, 'cyclic': cyc, 'wrapper': w,
                         'D': D, 'depth': TREE_DEPTH_THOROUGH[w] if cap < 3 else 4,
                         'first': None})
  return runs


def plan(prop, tier):
  return len(_tree_runs(tier)) + (1600 if tier == 'quick' else 20000)


def worker_class(prop, tier, run):
  # records are int32/float32 with exact integer content: precision is
  # irrelevant; all workers get 4 host devices because wrappers need them.
  return {'x64': False, 'dev4': True}


def chunks_per_worker(prop, tier):
  return 3


def det_runs(prop, tier, n):
  return max(16, n // 40)


def evidence_info(prop, tier):
  return {
      'rule': 'run = one queue configuration + one operation history drawn from '
              'the run PRNG (or one systematic subtree of all op sequences up to '
              'a depth); distinct = distinct genome hash; non-trivial = at least '
              'one accepted insert and one accepted sample were checked against '
              'the model',
      'time_unit': 'queue operations',
      'state_measure': 'distinct (kind, wrapper, capacity, batch, cyclic, '
                       'len(held), cursor, next op) tuples of shard 0',
      'components': {'real': ['replay_buffers.Queue', 'UniformSamplingQueue',
                              'PmapWrapper (2/4 forced host devices)',
                              'PjitWrapper (2x2 mesh)', 'jax.jit of *_internal'],
                     'stub': []},
      'expected_probes': ['oversize', 'oversample', 'exact_fill',
                          'overflow_partial', 'evict_unsampled',
                          'cursor_clamped', 'sample_wrap', 'batch_eq_cap',
                          'refused_then_accepted', 'uniform_coverage_checked'],
      'complete_subspaces': [
          'quick: all op sequences over {insert 1..cap, sample} of length <= 5 '
          'for plain queues cap 1-3, B 1-4, cyclic/non-cyclic; length <= 3 for '
          '2-shard pmap/pjit cap 1-2',
          'thorough: length <= 7 for plain cap 1-5 B 1-4; length <= 5 (cap<3) / '
          '4 (cap 3) for 2- and 4-shard pmap/pjit'],
      'assumptions': [
          'insert sizes are multiples of the shard count; no outer jit around '
          'insert/sample (host guard runs per call)',
          'uniform queue is only sampled while it holds >= 1 record',
          'multi-host (process_index > 0) not reachable in one process'],
  }


# ----------------------------------------------------------------- generation

def generate(prop, tier, seed, run):
  trees = _tree_runs(tier)
  if run < len(trees):
    g = dict(trees[run])
    g['mode'] = 'tree'
    return g
  r = core.run_rng(seed, ENGINE, run)
  big = tier == 'thorough' and r.random() < 0.25
  cap = r.randint(6, 40) if big else r.randint(1, 5)
  B = r.randint(1, 16 if big else 4)
  kind = r.choice(['plain', 'plain', 'plain', 'uniform'])
  wrapper = r.choice(['none', 'none', 'none', 'pmap', 'pjit'])
  D = 1 if wrapper == 'none' else r.choice([2, 4])
  nops = r.randint(1, 60 if big else 14)
  p_ins = r.choice([0.35, 0.5, 0.65])
  p_fault = r.choice([0.0, 0.05, 0.15])
  small_bias = r.random() < 0.5
  ops = []
  for _ in range(nops):
    u = r.random()
    if u < p_fault:
      ops.append({'op': 'insert', 'k': cap + 1})           # oversize
    elif u < p_fault + p_ins * (1 - p_fault):
      k = r.randint(1, cap)
      if small_bias and r.random() < 0.5:
        k = min(cap, r.randint(1, max(1, B)))
      ops.append({'op': 'insert', 'k': k})
    else:
      ops.append({'op': 'sample'})
  return {'mode': 'history', 'kind': kind, 'cyclic': int(r.random() < 0.5),
          'wrapper': wrapper, 'D': D, 'cap': cap, 'B': B,
          'record': r.choice(['flat', 'tree']), 'jit': int(r.random() < 0.5),
          'key': r.randint(0, 2**31 - 1), 'ops': ops}


# ------------------------------------------------------------------ execution

def _mk_records(record, serials):
  import jax.numpy as jnp
  if record == 'flat':
    return jnp.array([[s, -s] for s in serials], jnp.int32)
  return {'a': jnp.array(serials, jnp.float32),
          'b': jnp.array([[2 * s, 3 * s] for s in serials], jnp.float32)}


def _dummy(record):
  import jax.numpy as jnp
  if record == 'flat':
    return jnp.zeros((2,), jnp.int32)
  return {'a': jnp.zeros((), jnp.float32), 'b': jnp.zeros((2,), jnp.float32)}


def _decode(record, out):
  """Returns (serials, checksum_ok) from a sampled batch."""
  import numpy as np
  if record == 'flat':
    a = np.asarray(out)
    return [int(x) for x in a[:, 0]], bool((a[:, 1] == -a[:, 0]).all())
  a, b = np.asarray(out['a']), np.asarray(out['b'])
  ok = bool((b[:, 0] == 2 * a).all() and (b[:, 1] == 3 * a).all()
            and (a == np.round(a)).all())
  return [int(x) for x in a], ok


_MESH = {}


def _build(g):
  import jax
  import numpy as np
  from brax.training import replay_buffers as rb
  record = g.get('record', 'flat')
  kind = g.get('kind', 'plain')
  if kind == 'uniform':
    base = rb.UniformSamplingQueue(g['cap'], _dummy(record), g['B'])
  else:
    base = rb.Queue(g['cap'], _dummy(record), g['B'], cyclic=bool(g['cyclic']))
  if g.get('jit', 1):
    base.insert_internal = jax.jit(base.insert_internal)
    base.sample_internal = jax.jit(base.sample_internal)
  w, D = g['wrapper'], g['D']
  if w == 'pmap':
    q = rb.PmapWrapper(base, local_device_count=D)
  elif w == 'pjit':
    mesh = jax.sharding.Mesh(np.array(jax.devices()[:4]).reshape(2, 2),
                             ('x', 'y'))
    q = rb.PjitWrapper(base, mesh=mesh,
                       axis_names=('x',) if D == 2 else ('x', 'y'))
  else:
    q = base
  return q


def _snap(q):
  """Copy of the host-side queue object(s) without naming their fields."""
  from brax.training import replay_buffers as rb
  new = copy.copy(q)
  for name, val in vars(q).items():
    if isinstance(val, rb.ReplayBuffer):
      setattr(new, name, _snap(val))
  return new


class _Sim:
  """Real queue + one QueueModel per shard, checked operation by operation."""

  def __init__(self, g, ctx):
    import jax
    self.g, self.ctx = g, ctx
    self.kind = g.get('kind', 'plain')
    self.record = g.get('record', 'flat')
    self.D = g['D']
    self.sig = f"{self.kind}/{'cyclic' if g['cyclic'] else 'fifo'}/{g['wrapper']}"
    self.q = _build(g)
    self.key = jax.random.PRNGKey(g.get('key', 0))
    self.st = self.q.init(self.key)
    self.models = [QueueModel(g['cap'], g['B'], bool(g['cyclic']),
                              self.kind == 'uniform') for _ in range(self.D)]
    self.serial = 1
    self.nstep = 0
    self.last_refused = False
    self.acc_ins = self.acc_smp = 0
    self.twin = None
    if self.kind == 'uniform':
      self.twin = _build(g)
      self.twin_st = self.twin.init(self.key)

  def fork(self):
    new = copy.copy(self)
    new.q = _snap(self.q)
    new.models = [copy.deepcopy(m) for m in self.models]
    return new

  def state_sig(self, nextop):
    m = self.models[0]
    g = self.g
    self.ctx.state((self.kind, g['wrapper'], g['cap'], g['B'], g['cyclic'],
                    len(m.held), m.cur, nextop))

  def insert(self, k):
    import jax
    ctx, g = self.ctx, self.g
    step = self.nstep
    self.nstep += 1
    ctx.steps += 1
    n = k * self.D
    recs = list(range(self.serial, self.serial + n))
    batch = _mk_records(self.record, recs)
    ctx.log.inp('insert', recs)
    self.state_sig(f'insert{"_over" if k > g["cap"] else ""}')
    refused = False
    exc = ''
    try:
      st2 = self.q.insert(self.st, batch)
      jax.block_until_ready(st2)
    except Exception as e:  # pylint: disable=broad-except
      # any exception is a refusal; the statement names no exception type
      refused = True
      exc = f'{type(e).__name__}: {str(e)[:200]}'
    if self.twin is not None and not refused:
      self.twin_st = self.twin.insert(self.twin_st, batch)
    ctx.log.out('insert', int(refused))
    if k > g['cap'] and refused:
      # outside the stated quantifier (1 <= k <= capacity): a refusal is legal
      # and must leave the queue unchanged (checked by the following ops); an
      # acceptance must still keep the most recent `capacity` records.
      ctx.fault('oversize')
      self.last_refused = True
      return self.check_size(step)
    if k > g['cap']:
      ctx.probe('oversize_accepted')
    if refused:
      ctx.violate('insert.refusal', step, self.sig,
                  {'k': k, 'capacity': g['cap'], 'observed': 'refused',
                   'exception': exc})
      return False
    self.st = st2
    self.serial += n
    self.acc_ins += 1
    if self.last_refused:
      ctx.probe('refused_then_accepted')
    self.last_refused = False
    for d in range(self.D):
      ev = self.models[d].insert(recs[d::self.D])
      if d == 0:
        for name, on in ev.items():
          ctx.probe(name, int(on))
    return self.check_size(step)

  def sample(self):
    import jax
    ctx, g = self.ctx, self.g
    step = self.nstep
    self.nstep += 1
    ctx.steps += 1
    B, D = g['B'], self.D
    ctx.log.inp('sample', step)
    self.state_sig('sample')
    if self.kind == 'uniform' and len(self.models[0].held) == 0:
      # precondition of the claim: uniform queue holds >= 1 record
      ctx.probe('uniform_empty_skipped')
      return True
    exp_ok = all(m.can_sample() for m in self.models)
    refused = False
    out = None
    exc = ''
    try:
      st2, out = self.q.sample(self.st)
      jax.block_until_ready(out)
    except Exception as e:  # pylint: disable=broad-except
      refused = True
      exc = f'{type(e).__name__}: {str(e)[:200]}'
    if refused:
      ctx.log.out('sample', 'refused')
      if exp_ok:
        ctx.violate('sample.refusal', step, self.sig,
                    {'expected': 'batch', 'observed': 'refused',
                     'exception': exc,
                     'avail': [m.avail() for m in self.models], 'B': B})
        return False
      ctx.fault('oversample')
      self.last_refused = True
      return self.check_size(step)
    if not exp_ok:
      ctx.violate('sample.refusal', step, self.sig,
                  {'expected': 'refused', 'observed': 'batch',
                   'avail': [m.avail() for m in self.models], 'B': B})
      return False
    self.st = st2
    self.acc_smp += 1
    if self.last_refused:
      ctx.probe('refused_then_accepted')
    self.last_refused = False
    got, cs_ok = _decode(self.record, out)
    ctx.log.out('sample', got)
    if len(got) != B * D:
      ctx.violate('sample.order', step, self.sig,
                  {'expected_len': B * D, 'observed_len': len(got)})
      return False
    if not cs_ok:
      ctx.violate('sample.checksum', step, self.sig, {'observed': got})
      return False
    if B == g['cap']:
      ctx.probe('batch_eq_cap')
    if self.kind == 'uniform':
      for d in range(D):
        rows = got[d::D]
        held = set(self.models[d].held)
        bad = [x for x in rows if x not in held]
        if bad:
          ctx.violate('sample.held', step, self.sig,
                      {'shard': d, 'not_held': bad,
                       'held': sorted(held)})
          return False
      self.twin_st, out2 = self.twin.sample(self.twin_st)
      got2, _ = _decode(self.record, out2)
      if got2 != got:
        ctx.violate('uniform.key_determinism', step, self.sig,
                    {'first': got, 'second': got2})
        return False
      return self.check_size(step)
    exp = [None] * (B * D)
    for d in range(D):
      o, wrapped = self.models[d].sample()
      if d == 0:
        ctx.probe('sample_wrap', int(wrapped))
      for i, x in enumerate(o):
        exp[i * D + d] = x
    if got != exp:
      # attribute: same multiset per shard but wrong interleave?
      oracle = 'sample.order'
      if D > 1 and sorted(got) == sorted(exp):
        oracle = 'shard.interleave'
      ctx.violate(oracle, step, self.sig, {'expected': exp, 'observed': got})
      return False
    return self.check_size(step)

  def check_size(self, step):
    ctx = self.ctx
    try:
      sz = int(self.q.size(self.st))
    except Exception as e:  # pylint: disable=broad-except
      ctx.violate('raises', step, self.sig + '/size',
                  {'exception': repr(e)[:300]})
      return False
    exp = sum(m.avail() for m in self.models)
    ctx.log.out('size', sz)
    if self.kind == 'uniform':
      ctx.notes['uniform_size_recorded'] = ctx.notes.get(
          'uniform_size_recorded', 0) + 1
      return True
    if sz != exp:
      ctx.violate('size', step, self.sig, {'expected': exp, 'observed': sz,
                                          'per_shard': [m.avail() for m in self.models]})
      return False
    return True

  def coverage(self):
    """Uniform queue: with <= 5 held records per shard, 200+ draws on a copy
    of the (immutable) state must hit every held record of every shard."""
    import jax
    ctx, g = self.ctx, self.g
    if self.kind != 'uniform' or not self.models[0].held:
      return True
    if max(len(m.held) for m in self.models) > 5:
      return True
    q = _snap(self.q)
    st = self.st
    seen = [set() for _ in range(self.D)]
    draws = 0
    while draws < 200:
      st, out = q.sample(st)
      got, _ = _decode(self.record, out)
      for d in range(self.D):
        seen[d].update(got[d::self.D])
      draws += g['B']
    ctx.probe('uniform_coverage_checked')
    for d in range(self.D):
      held = set(self.models[d].held)
      if seen[d] != held:
        ctx.violate('uniform.coverage', self.nstep, self.sig,
                    {'shard': d, 'held': sorted(held), 'seen': sorted(seen[d])})
        return False
    return True


def _tree(sim, depth, first, ctx):
  """DFS over all op sequences; children share the immutable device state and
  get a copy of the host-side object."""
  if depth == 0:
    return True
  cap = sim.g['cap']
  choices = list(range(0, cap + 1)) if first is None else [first]
  for c in choices:
    child = sim.fork()
    ok = child.sample() if c == 0 else child.insert(c)
    if not ok:
      ctx.notes.setdefault('failing_path', [])
      ctx.notes['failing_path'].insert(0, c)
      return False
    ctx.notes['nodes'] = ctx.notes.get('nodes', 0) + 1
    if not _tree(child, depth - 1, None, ctx):
      ctx.notes['failing_path'].insert(0, c)
      return False
  return True


def execute(g, ctx):
  if g['mode'] == 'tree':
    gg = dict(g)
    gg.update({'kind': 'plain', 'record': 'flat', 'jit': 1, 'key': 0})
    sim = _Sim(gg, ctx)
    _tree(sim, g['depth'], g.get('first'), ctx)
    ctx.nontrivial = ctx.notes.get('nodes', 0) > 2
    ctx.sim_time = float(ctx.steps)
    return {'mode': 'tree', 'config': {k: g[k] for k in
                                       ('cap', 'B', 'cyclic', 'wrapper', 'D', 'depth', 'first')},
            'nodes': ctx.notes.get('nodes', 0)}
  sim = _Sim(g, ctx)
  ok = True
  for op in g['ops']:
    if op['op'] == 'insert':
      ok = sim.insert(op['k'])
    else:
      ok = sim.sample()
    if not ok:
      break
  if ok:
    sim.coverage()
  ctx.nontrivial = sim.acc_ins > 0 and sim.acc_smp > 0
  ctx.sim_time = float(ctx.steps)
  return {'mode': 'history',
          'config': {k: g[k] for k in ('kind', 'cyclic', 'wrapper', 'D', 'cap',
                                       'B', 'record', 'jit')},
          'ops': [(o['op'][0] + str(o.get('k', ''))) for o in g['ops']]}


# ------------------------------------------------------------------ shrinking

def shrink_candidates(g, oracle):
  if g['mode'] == 'tree':
    # smallest depth first, then a single first op, then plain histories
    for d in range(1, g['depth']):
      c = dict(g)
      c['depth'] = d
      yield c
    if g.get('first') is None:
      for f in range(0, g['cap'] + 1):
        c = dict(g)
        c['first'] = f
        yield c
    import itertools
    n = g['depth'] - (0 if g.get('first') is None else 1)
    if (g['cap'] + 1) ** n <= 600:
      for seq in itertools.product(range(0, g['cap'] + 1), repeat=n):
        seq = ([] if g.get('first') is None else [g['first']]) + list(seq)
        yield {'mode': 'history', 'kind': 'plain', 'cyclic': g['cyclic'],
               'wrapper': g['wrapper'], 'D': g['D'], 'cap': g['cap'],
               'B': g['B'], 'record': 'flat', 'jit': 1, 'key': 0,
               'ops': [{'op': 'sample'} if c == 0 else {'op': 'insert', 'k': c}
                       for c in seq]}
    return
  ops = g['ops']
  # drop operations, last first
  for i in reversed(range(len(ops))):
    c = dict(g)
    c['ops'] = ops[:i] + ops[i + 1:]
    if c['ops']:
      yield c
  for i, op in enumerate(ops):
    if op['op'] == 'insert' and 1 < op['k'] <= g['cap']:
      c = dict(g)
      c['ops'] = ops[:i] + [{'op': 'insert', 'k': op['k'] - 1}] + ops[i + 1:]
      yield c
  if g['wrapper'] != 'none' and oracle != 'shard.interleave':
    c = dict(g)
    c.update({'wrapper': 'none', 'D': 1})
    yield c
  if g['D'] == 4:
    c = dict(g)
    c['D'] = 2
    yield c
  if g['record'] != 'flat':
    c = dict(g)
    c['record'] = 'flat'
    yield c
  if g['jit']:
    c = dict(g)
    c['jit'] = 0
    yield c
  if g['cap'] > 1 and all(o.get('k', 0) < g['cap'] for o in ops):
    c = dict(g)
    c['cap'] = g['cap'] - 1
    yield c
  if g['B'] > 1:
    c = dict(g)
    c['B'] = g['B'] - 1
    yield c
