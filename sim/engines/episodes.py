"""C15 — episode / auto-reset / evaluation wrappers (engine `episodes`).

Real code: training.wrap, envs.create, EpisodeWrapper, VmapWrapper,
AutoResetWrapper, EvalWrapper, acting.actor_step / generate_unroll /
Evaluator. Stubs: ScriptEnv (the scripted environment), the policy, the clock
(`acting.time`), brax.v1 (type aliases, only if the real import fails).
"""
from sim import core
from sim.refmodels import EpisodeModel

ENGINE = 'episodes'
SHRINK_BUDGET = (120, 400)

PREFIX_QUICK = [(L, r) for L in (1, 2, 3, 5, 6) for r in (1, 2, 3)][:9] + \
               [(4, 1), (4, 3), (6, 2)]
PREFIX_ALL = [(L, r) for L in range(1, 7) for r in (1, 2, 3)]


def _prefix(tier):
  out = []
  if tier == 'quick':
    for i, (L, r) in enumerate(PREFIX_QUICK):
      out.append({'L': L, 'r': r, 'order': ['wrap', 'create'][i % 2],
                  'eval': i % 3 == 0, 'carry': i % 2})
  else:
    for (L, r) in PREFIX_ALL:
      for order in ('wrap', 'create'):
        for ev in (0, 1):
          out.append({'L': L, 'r': r, 'order': order, 'eval': bool(ev),
                      'carry': (L + r + ev) % 2})
  return out


def plan(prop, tier):
  return len(_prefix(tier)) + (1200 if tier == 'quick' else 20000)


def worker_class(prop, tier, run):
  return {'x64': False, 'dev4': False}


def chunks_per_worker(prop, tier):
  return 3


def det_runs(prop, tier, n):
  return max(16, n // 50)


def evidence_info(prop, tier):
  return {
      'rule': 'run = one wrapper configuration (order, eval, jit, L, r, batch) + '
              'one per-member termination/reward schedule (action driven and '
              '8-bit sub-step masks) + external resets / clock schedule, all '
              'from the run PRNG; prefix runs carry all 2^8 sub-step termination '
              'masks as a 256-member batch. distinct = distinct genome hash; '
              'non-trivial = at least one episode end was checked',
      'time_unit': 'member sub-steps',
      'state_measure': 'distinct (L, r, steps, dead, timeout, prev_done, active, '
                       'order, eval) tuples reached by the reference model',
      'components': {
          'real': ['training.wrap', 'envs.create', 'VmapWrapper',
                   'EpisodeWrapper', 'AutoResetWrapper', 'EvalWrapper',
                   'acting.actor_step', 'acting.generate_unroll',
                   'acting.Evaluator.run_evaluation'],
          'stub': ['ScriptEnv (scripted environment)', 'policy (table / key '
                   'driven)', 'acting.time (simulated clock)',
                   'brax.v1 (placeholder type aliases if import fails)']},
      'expected_probes': ['term_mid_repeat', 'term_consecutive', 'term_at_limit',
                          'term_first_step', 'full_reset', 'clock_jump',
                          'clock_back', 'truncation_seen', 'episode_end',
                          'eval_frozen_steps', 'unroll_checked',
                          'evaluator_checked', 'r_not_dividing_L'],
      'complete_subspaces': [
          'prefix runs: all 2^8 sub-step termination masks of length 8 for the '
          'listed (L, r, order, eval) configurations (quick: 12 configs; '
          'thorough: all 18 (L,r) x 2 orders x eval on/off), histories of 3L+3 '
          'wrapped steps'],
      'assumptions': [
          'termination is sticky within an episode (as "unhealthy" is in the '
          'bundled envs); a done pulse that disappears again inside one action '
          'repeat is an unspecified corner and is not generated',
          'cut "after exactly episode_length steps" is read as: at the first '
          'wrapped step whose cumulative sub-step count reaches episode_length',
          'timing metrics (eval/sps, walltime, epoch_eval_time) are not asserted'],
  }


# ----------------------------------------------------------------- generation

def generate(prop, tier, seed, run):
  pre = _prefix(tier)
  if run < len(pre):
    g = dict(pre[run])
    g.update({'mode': 'prefix', 'jit': 1, 'T': 3 * g['L'] + 3})
    return g
  r = core.run_rng(seed, ENGINE, run)
  u = r.random()
  big = tier == 'thorough' and r.random() < 0.2
  L = r.randint(1, 12 if big else 6)
  rep = r.randint(1, 3)
  B = r.randint(1, 6)
  pterm = r.choice([0.0, 0.02, 0.1, 0.3, 0.6])
  pmask = r.choice([0.0, 0.0, 0.3, 1.0])

  def mask():
    if r.random() >= pmask:
      return 0
    # a single bit or arbitrary bits
    return (1 << r.randint(0, 7)) if r.random() < 0.6 else r.randint(0, 255)
  if u < 0.70:
    T = r.randint(3, 40 if big else 3 * L + 3)
    steps = [[[int(r.random() < pterm), r.randint(-3, 3)] for _ in range(B)]
             for _ in range(T)]
    resets = {}
    if r.random() < 0.3:
      for _ in range(r.randint(1, 2)):
        resets[str(r.randint(1, T))] = r.choice(['same', 'new'])
    return {'mode': 'history', 'order': r.choice(['wrap', 'create']),
            'eval': r.random() < 0.5, 'jit': int(r.random() < 0.8),
            'L': L, 'r': rep, 'B': B, 'key': r.randint(0, 2**31 - 1),
            'masks': [mask() for _ in range(B)], 'steps': steps,
            'resets': resets, 'carry': int(r.random() < 0.5)}
  if u < 0.85:
    return {'mode': 'unroll', 'L': L, 'r': rep, 'B': B,
            'U': r.randint(1, 14), 'pterm': pterm,
            'key': r.randint(0, 2**31 - 1),
            'masks': [mask() for _ in range(B)],
            'extras': r.random() < 0.7, 'eval': r.random() < 0.3,
            'carry': int(r.random() < 0.5)}
  kinds = [1e-6, 1e-3, 0.25, 1.0, 3.0, 1e3, 1e6]
  clocks = []
  for _ in range(2):
    n = r.randint(1, 4)
    d = [r.choice(kinds) for _ in range(n)]
    if r.random() < 0.25:
      d[r.randrange(n)] = -r.choice([0.5, 100.0, 1e5])
    clocks.append(d)
  return {'mode': 'evaluator', 'L': L, 'r': rep, 'B': B,
          'key': r.randint(0, 2**31 - 1), 'clocks': clocks,
          'pa': r.randint(1, 9), 'pb': r.randint(1, 9), 'pm': r.randint(2, 9),
          'evals': r.randint(1, 2), 'carry': int(r.random() < 0.5)}


# ------------------------------------------------------------------ execution

_CACHE = {}


def _mods():
  if 'm' not in _CACHE:
    import jax
    import numpy as np
    from jax import numpy as jp
    from brax import envs
    from brax.envs.wrappers import training
    from sim import scriptenv
    acting, stubbed = scriptenv.import_acting()
    SE = {0: scriptenv.make_script_env(False), 1: scriptenv.make_script_env(True)}
    envs.register_environment('script_verif0', SE[0])
    envs.register_environment('script_verif1', SE[1])
    _CACHE['m'] = (jax, jp, np, envs, training, acting, SE, stubbed, scriptenv)
  return _CACHE['m']


def _make_env(g, B):
  jax, jp, np, envs, training, acting, SE, stubbed, _ = _mods()
  if g.get('order', 'wrap') == 'wrap':
    env = training.wrap(SE[int(g.get('carry', 0))](), episode_length=g['L'],
                        action_repeat=g['r'])
  else:
    env = envs.create(f"script_verif{int(g.get('carry', 0))}", episode_length=g['L'],
                      action_repeat=g['r'], auto_reset=True, batch_size=B)
  if g.get('eval'):
    env = training.EvalWrapper(env)
  return env


def _keys(g, key, masks):
  jax, jp, np = _mods()[:3]
  if g.get('order', 'wrap') == 'wrap':
    return jp.array([[key & 0x7FFFFFFF, m] for m in masks], jp.uint32)
  return jax.random.PRNGKey(key)


def _tree_np(x):
  import jax
  import numpy as np
  return jax.tree_util.tree_map(np.asarray, x)


def _sub_terms(model, mask, act_term, r):
  """Per sub-step termination inputs for one wrapped step of one member."""
  t0 = model.t
  terms = []
  for i in range(1, r + 1):
    t = t0 + i
    bit = (mask >> (t - 1)) & 1 if t <= 8 else 0
    terms.append(1 if (act_term or bit) else 0)
  return terms


class _Checker:
  """Compares the real batched state with one EpisodeModel per member."""

  def __init__(self, g, ctx, B):
    self.g, self.ctx, self.B = g, ctx, B
    self.sig = f"{g.get('order', 'wrap')}/{'eval' if g.get('eval') else 'plain'}"
    self.models = None
    self.masks = None
    self.first = None
    self.ok = True
    # independent history check: wrapped-step indices where done was observed
    self.ep_start = None
    self.term_hist = None

  def on_reset(self, state, step):
    np = _mods()[2]
    s = _tree_np(state)
    self.first = {'obs': s.obs, 'ps': s.pipeline_state}
    self.masks = [int(x) for x in np.atleast_1d(s.pipeline_state['mask'])]
    self.models = [EpisodeModel(self.g['L'], self.g['r']) for _ in range(self.B)]
    self.ep_start = [step] * self.B
    self.term_hist = [[] for _ in range(self.B)]
    self.ctx.log.out('reset', [s.obs, s.done, s.reward])
    return s

  def bad(self, oracle, step, detail):
    self.ctx.violate(oracle, step, self.sig, detail)
    self.ok = False
    return False

  def check_reset(self, s, step):
    np = _mods()[2]
    if not (np.asarray(s.info['steps']) == 0).all():
      return self.bad('step.steps', step, {'at': 'reset',
                                            'observed': np.asarray(s.info['steps']).tolist()})
    for b in range(self.B):
      v = s.obs['v'][b]
      if not (v[1] == 0 and v[2] == 0 and (s.obs['m'][b] == 0).all()):
        return self.bad('step.obs', step, {'at': 'reset', 'member': b})
    return True

  def step(self, k, state, acts):
    """acts: list of [term, reward] per member for wrapped step k."""
    np = _mods()[2]
    ctx, g = self.ctx, self.g
    r, L = g['r'], g['L']
    s = _tree_np(state)
    ctx.log.out('step', [s.obs, s.reward, s.done, s.info['steps'],
                         s.info['truncation']])
    for b in range(self.B):
      m = self.models[b]
      was_prev_done = m.prev_done
      terms = _sub_terms(m, self.masks[b], acts[b][0], r)
      o = m.step(terms, float(acts[b][1]))
      ctx.steps += r
      ctx.state((L, r, int(o['steps']), int(o['inner']), int(o['timeout']),
                 int(was_prev_done), int(o['active']), g.get('order', 'wrap'),
                 bool(g.get('eval'))))
      # fault / probe accounting (from the model, i.e. what actually happened)
      first_term = next((i for i, x in enumerate(terms) if x), None)
      if first_term is not None and first_term < r - 1:
        ctx.fault('term_mid_repeat')
      if o['done'] and was_prev_done:
        ctx.fault('term_consecutive')
      if o['inner'] and o['timeout']:
        ctx.fault('term_at_limit')
      if o['done'] and o['steps'] == r and o['inner']:
        ctx.fault('term_first_step')
      if o['truncation']:
        ctx.probe('truncation_seen')
      if o['done']:
        ctx.probe('episode_end')
        ctx.nontrivial = True
      where = {'member': b, 'wrapped_step': k, 'L': L, 'r': r,
               'mask': self.masks[b]}

      def cmp(oracle, name, got, exp):
        if float(got) != float(exp):
          d = dict(where)
          d.update({'field': name, 'expected': float(exp), 'observed': float(got)})
          return self.bad(oracle, k, d)
        return True
      if not cmp('step.reward', 'reward', s.reward[b], o['reward']):
        return False
      if not cmp('step.done', 'done', s.done[b], o['done']):
        return False
      if not cmp('step.truncation', 'truncation', s.info['truncation'][b],
                 o['truncation']):
        return False
      if not cmp('step.steps', 'steps', s.info['steps'][b], o['steps']):
        return False
      # observation / state: scripted env's, or the reset snapshot after done
      v = s.obs['v'][b]
      ps = s.pipeline_state
      exp_v = [float(self.masks[b]), float(o['t']), float(o['dead'])]
      if [float(x) for x in v] != exp_v or \
          not (s.obs['m'][b] == o['mat']).all():
        d = dict(where)
        d.update({'expected_v': exp_v, 'observed_v': [float(x) for x in v],
                  'expected_m': o['mat'],
                  'observed_m': np.asarray(s.obs['m'][b]).tolist(),
                  'done': o['done']})
        return self.bad('step.obs', k, d)
      if int(ps['t'][b]) != o['t'] or float(ps['dead'][b]) != o['dead'] or \
          not (ps['mat'][b] == o['mat']).all() or \
          int(ps['mask'][b]) != self.masks[b]:
        d = dict(where)
        d.update({'expected': [o['t'], o['dead'], o['mat']],
                  'observed': [int(ps['t'][b]), float(ps['dead'][b]),
                               np.asarray(ps['mat'][b]).tolist()]})
        return self.bad('step.pipeline_state', k, d)
      if o['done']:
        # must be exactly what reset returned for this member
        for name in ('v', 'm'):
          if not (s.obs[name][b] == self.first['obs'][name][b]).all():
            return self.bad('step.obs', k, dict(where, field='first_obs.' + name))
        for name in ps:
          if not (ps[name][b] == self.first['ps'][name][b]).all():
            return self.bad('step.pipeline_state', k,
                            dict(where, field='first_ps.' + name))
      if g.get('eval'):
        em = s.info['eval_metrics']
        if not o['active'] and not o['done']:
          ctx.probe('eval_frozen_steps')
        if not cmp('eval.metrics', 'episode_reward',
                   em.episode_metrics['reward'][b], o['ep_reward']):
          return False
        if not cmp('eval.metrics', 'episode_m', em.episode_metrics['m'][b],
                   o['ep_m']):
          return False
        if not cmp('eval.active', 'active', em.active_episodes[b], o['active']):
          return False
        if not cmp('eval.steps', 'episode_steps', em.episode_steps[b],
                   o['ep_steps']):
          return False
      # independent closed-form check of the episode length
      self.term_hist[b].append(int(acts[b][0]))
      if float(s.done[b]):
        n = k - self.ep_start[b] + 1            # wrapped steps in this episode
        exp_n = None
        for j in range(1, n + 1):
          sub = j * r
          mbits = self.masks[b] & ((1 << min(sub, 8)) - 1)
          if sub >= L or mbits or any(self.term_hist[b][:j]):
            exp_n = j
            break
        if exp_n != n:
          return self.bad('episode.length', k,
                          dict(where, expected_wrapped_steps=exp_n,
                               observed_wrapped_steps=n))
        self.ep_start[b] = k + 1
        self.term_hist[b] = []
    return True


def _run_history(g, ctx):
  jax, jp, np, envs, training, acting, SE, stubbed, _ = _mods()
  prefix = g['mode'] == 'prefix'
  if prefix:
    B = 256
    masks = list(range(256))
    T = g['T']
    steps = [[[0, ((k + b) % 7) - 3] for b in range(B)] for k in range(T)]
    resets = {}
    key = 7
  else:
    B, masks, steps, resets, key = g['B'], g['masks'], g['steps'], \
        g.get('resets', {}), g['key']
  if g['L'] % g['r']:
    ctx.probe('r_not_dividing_L')
  chk = _Checker(g, ctx, B)
  with ctx.under_test('raises', 0, chk.sig + '/build'):
    env = _make_env(g, B)
    reset = jax.jit(env.reset) if g.get('jit', 1) else env.reset
    step = jax.jit(env.step) if g.get('jit', 1) else env.step
  if ctx.violations:
    return
  keys = _keys(g, key, masks)
  ctx.log.inp('keys', np.asarray(keys))
  with ctx.under_test('raises', 0, chk.sig + '/reset'):
    state = reset(keys)
  if ctx.violations:
    return
  s = chk.on_reset(state, 0)
  if not chk.check_reset(s, 0):
    return
  for k, acts in enumerate(steps):
    if str(k) in resets:
      # external full reset in the middle of the history
      kind = resets[str(k)]
      if kind == 'new':
        key = (key * 31 + 17) & 0x7FFFFFFF
        keys = _keys(g, key, masks)
      with ctx.under_test('raises', k, chk.sig + '/reset'):
        state = reset(keys)
      if ctx.violations:
        return
      ctx.fault('full_reset')
      s = chk.on_reset(state, k)
      if not chk.check_reset(s, k):
        return
    a = jp.array(acts, jp.float32)
    ctx.log.inp('act', acts)
    with ctx.under_test('raises', k, chk.sig + '/step'):
      state = step(state, a)
    if ctx.violations:
      return
    if not chk.step(k, state, acts):
      return
  ctx.sim_time = float(ctx.steps)


def _policy_random(pterm):
  jax, jp = _mods()[:2]

  def policy(obs, key):
    k1, k2 = jax.random.split(key)
    shape = obs['v'].shape[:-1]
    term = (jax.random.uniform(k1, shape) < pterm).astype(jp.float32)
    rew = jax.random.randint(k2, shape, -3, 4).astype(jp.float32)
    return jp.stack([term, rew], -1), {'k': term}
  return policy


def _run_unroll(g, ctx):
  jax, jp, np, envs, training, acting, SE, stubbed, _ = _mods()
  B, U = g['B'], g['U']
  gg = dict(g, order='wrap')
  chk = _Checker(gg, ctx, B)
  with ctx.under_test('raises', 0, chk.sig + '/build'):
    env = _make_env(gg, B)
  if ctx.violations:
    return
  keys = _keys(gg, g['key'], g['masks'])
  st0 = env.reset(keys)
  s0 = chk.on_reset(st0, 0)
  extra = ('truncation', 'steps') if g.get('extras') else ()
  ctx.log.inp('unroll', [np.asarray(keys), U])
  with ctx.under_test('raises', 0, chk.sig + '/generate_unroll'):
    fin, data = acting.generate_unroll(env, st0, _policy_random(g['pterm']),
                                       jax.random.PRNGKey(g['key']), U,
                                       extra_fields=extra)
  if ctx.violations:
    return
  d = _tree_np(data)
  f = _tree_np(fin)
  ctx.log.out('unroll', [d.observation, d.action, d.reward, d.discount,
                         d.next_observation])
  ctx.probe('unroll_checked')
  for name in ('v', 'm'):
    obs, nobs = d.observation[name], d.next_observation[name]
    if not (obs[0] == s0.obs[name]).all():
      return chk.bad('unroll.chain', 0, {'field': name, 'what':
                                         'first observation is not the pre-step obs'})
    if not (obs[1:] == nobs[:-1]).all():
      bad = int(np.argwhere((obs[1:] != nobs[:-1]).reshape(U - 1, -1).any(1))[0][0])
      return chk.bad('unroll.chain', bad, {'field': name, 'what':
                                           'next_observation[t] != observation[t+1]'})
    if not (nobs[-1] == f.obs[name]).all():
      return chk.bad('unroll.chain', U - 1, {'field': name, 'what':
                                             'last next_observation != final state obs'})
  if not (d.extras['policy_extras']['k'] == d.action[..., 0]).all():
    return chk.bad('unroll.chain', 0, {'what': 'policy extras not carried'})
  # replay the recorded actions through the model, step by step
  for k in range(U):
    acts = [[int(d.action[k, b, 0] > 0.5), float(d.action[k, b, 1])]
            for b in range(B)]
    # assemble a pseudo state for the checker from the recorded transition
    for b in range(B):
      m = chk.models[b]
      terms = _sub_terms(m, chk.masks[b], acts[b][0], g['r'])
      o = m.step(terms, acts[b][1])
      ctx.steps += g['r']
      if o['done']:
        ctx.nontrivial = True
        ctx.probe('episode_end')
      where = {'member': b, 'wrapped_step': k, 'L': g['L'], 'r': g['r'],
               'mask': chk.masks[b]}
      if float(d.reward[k, b]) != o['reward']:
        return chk.bad('step.reward', k, dict(where, expected=o['reward'],
                                              observed=float(d.reward[k, b])))
      if float(d.discount[k, b]) != 1.0 - o['done']:
        return chk.bad('unroll.discount', k,
                       dict(where, expected=1.0 - o['done'],
                            observed=float(d.discount[k, b])))
      nv = d.next_observation['v'][k, b]
      if [float(x) for x in nv] != [float(chk.masks[b]), float(o['t']),
                                    float(o['dead'])]:
        return chk.bad('step.obs', k, dict(where, observed=[float(x) for x in nv],
                                           expected=[chk.masks[b], o['t'], o['dead']]))
      if g.get('extras'):
        se = d.extras['state_extras']
        if float(se['truncation'][k, b]) != o['truncation']:
          return chk.bad('step.truncation', k,
                         dict(where, expected=o['truncation'],
                              observed=float(se['truncation'][k, b])))
        if float(se['steps'][k, b]) != o['steps']:
          return chk.bad('step.steps', k, dict(where, expected=o['steps'],
                                               observed=float(se['steps'][k, b])))
      if g.get('eval') and k == U - 1:
        em = f.info['eval_metrics']
        if float(em.episode_metrics['reward'][b]) != o['ep_reward'] or \
            float(em.active_episodes[b]) != o['active'] or \
            float(em.episode_steps[b]) != o['ep_steps']:
          return chk.bad('eval.metrics', k, dict(
              where, expected=[o['ep_reward'], o['active'], o['ep_steps']],
              observed=[float(em.episode_metrics['reward'][b]),
                        float(em.active_episodes[b]),
                        float(em.episode_steps[b])]))
  ctx.sim_time = float(ctx.steps)


def _policy_det(g):
  """Deterministic function of the observation only, so the reference model
  can predict whole evaluation episodes from the member id alone."""
  jax, jp = _mods()[:2]
  pa, pb, pm = g['pa'], g['pb'], g['pm']

  def make(params):
    del params

    def policy(obs, key):
      v = obs['v']
      mid, t = v[..., 0].astype(jp.int32), v[..., 1].astype(jp.int32)
      term = ((mid * pa + t * pb) % pm == 0).astype(jp.float32)
      rew = ((mid + t) % 7 - 3).astype(jp.float32)
      return jp.stack([term, rew], -1), {}
    return policy
  return make


def _run_evaluator(g, ctx):
  jax, jp, np, envs, training, acting, SE, stubbed, scriptenv = _mods()
  B, L, r = g['B'], g['L'], g['r']
  sig = 'evaluator'
  env = training.wrap(SE[int(g.get('carry', 0))](), episode_length=L,
                      action_repeat=r)
  results = []
  for ci, deltas in enumerate(g['clocks']):
    clock = scriptenv.SimClock(deltas)
    saved = acting.time
    acting.time = clock
    try:
      with ctx.under_test('raises', ci, sig + '/run_evaluation'):
        ev = acting.Evaluator(env, _policy_det(g), num_eval_envs=B,
                              episode_length=L, action_repeat=r,
                              key=jax.random.PRNGKey(g['key']))
        per, agg = [], []
        for _ in range(g['evals']):
          # two evaluators with the same key are used for the aggregated view
          per.append(ev.run_evaluation(None, {'training/x': 1.0},
                                       aggregate_episodes=(ci == 1)))
    finally:
      acting.time = saved
    if ctx.violations:
      return
    for d in deltas:
      if abs(d) >= 1e3:
        ctx.fault('clock_jump')
      if d < 0:
        ctx.fault('clock_back')
    ctx.notes['clock_reads'] = ctx.notes.get('clock_reads', 0) + clock.reads
    results.append(per)
  ctx.log.inp('evaluator', [g['key'], g['clocks']])
  unroll = L // r
  for e in range(g['evals']):
    per = {k: np.asarray(v) for k, v in results[0][e].items()}
    agg = {k: np.asarray(v) for k, v in results[1][e].items()}
    ctx.log.out('evaluator', [per[k] for k in sorted(per) if k.startswith(
        'eval/episode') or k == 'eval/avg_episode_length'])
    ctx.probe('evaluator_checked')
    if float(per.get('training/x', 0)) != 1.0:
      ctx.violate('evaluator.metrics', e, sig, {'what': 'training metrics dropped'})
      return
    # recover member ids from the per-member metrics of the unaggregated run
    ones = per['eval/episode_one']
    ids = per['eval/episode_id'] / np.maximum(ones, 1)
    exp = {'reward': [], 'm': [], 'one': [], 'id': [], 'steps': []}
    for b in range(B):
      mid = int(ids[b])
      m = EpisodeModel(L, r)
      o = None
      n_active = 0
      for _ in range(unroll):
        act_term = int((mid * g['pa'] + m.t * g['pb']) % g['pm'] == 0)
        rew = float((mid + m.t) % 7 - 3)
        was_active = m.active
        o = m.step(_sub_terms(m, mid, act_term, r), rew)
        ctx.steps += r
        n_active += int(was_active)
        if o['done']:
          ctx.nontrivial = True
          ctx.probe('episode_end')
      exp['reward'].append(o['ep_reward'] if o else 0.0)
      exp['m'].append(o['ep_m'] if o else 0.0)
      exp['one'].append(float(n_active))
      exp['id'].append(float(mid * n_active))
      exp['steps'].append(o['ep_steps'] if o else 0.0)
    for name in ('reward', 'm', 'one', 'id'):
      got = per[f'eval/episode_{name}']
      if [float(x) for x in got] != exp[name]:
        ctx.violate('evaluator.metrics', e, sig,
                    {'metric': name, 'expected': exp[name],
                     'observed': [float(x) for x in got], 'L': L, 'r': r,
                     'ids': [int(i) for i in ids]})
        return
    if unroll and abs(float(per['eval/avg_episode_length']) -
                      float(np.mean(exp['steps']))) > 1e-4:
      ctx.violate('evaluator.metrics', e, sig,
                  {'metric': 'avg_episode_length',
                   'expected': float(np.mean(exp['steps'])),
                   'observed': float(per['eval/avg_episode_length'])})
      return
    # aggregated view under the other clock schedule: mean/std of the same
    for name in ('reward', 'm', 'one', 'id'):
      a = np.asarray(exp[name], np.float32)
      for suffix, fn in (('', np.mean), ('_std', np.std)):
        if f'eval/episode_{name}{suffix}' not in agg:
          continue   # metric naming is not part of the statement
        got = float(agg[f'eval/episode_{name}{suffix}'])
        want = float(fn(a))
        if abs(got - want) > 1e-4 * (1 + abs(want)):
          ctx.violate('evaluator.clock_independent', e, sig,
                      {'metric': name + suffix, 'expected': want,
                       'observed': got, 'clocks': g['clocks']})
          return
    if abs(float(agg['eval/avg_episode_length']) -
           float(per['eval/avg_episode_length'])) > 1e-6:
      ctx.violate('evaluator.clock_independent', e, sig,
                  {'metric': 'avg_episode_length'})
      return
  ctx.sim_time = float(ctx.steps)


def execute(g, ctx):
  mode = g['mode']
  if mode in ('history', 'prefix'):
    _run_history(g, ctx)
  elif mode == 'unroll':
    _run_unroll(g, ctx)
  else:
    _run_evaluator(g, ctx)
  ctx.notes['v1_stubbed'] = bool(_mods()[7])
  brief = {k: g[k] for k in g if k not in ('steps',)}
  if mode == 'history':
    brief['steps_head'] = g['steps'][:3]
    brief['n_steps'] = len(g['steps'])
  return brief


# ------------------------------------------------------------------ shrinking

def shrink_candidates(g, oracle):
  mode = g['mode']
  if mode == 'prefix':
    # single failing member cannot be isolated without the result; try halves
    # of the mask space as plain histories
    T = g['T']
    for lo, hi in ((0, 16), (16, 64), (64, 128), (128, 256), (0, 64), (0, 256)):
      masks = list(range(lo, hi))
      yield {'mode': 'history', 'order': g['order'], 'eval': g['eval'],
             'jit': 1, 'L': g['L'], 'r': g['r'], 'B': len(masks), 'key': 7,
             'carry': g.get('carry', 0),
             'masks': masks, 'resets': {},
             'steps': [[[0, ((k + b) % 7) - 3] for b in masks]
                       for k in range(T)]}
    return
  if mode == 'history':
    steps, B = g['steps'], g['B']
    T = len(steps)
    # truncate the history
    for cut in (T // 2, T - 1):
      if 0 < cut < T:
        c = dict(g)
        c['steps'] = steps[:cut]
        c['resets'] = {k: v for k, v in g.get('resets', {}).items()
                       if int(k) < cut}
        yield c
    # keep a single member / drop members
    if B > 1:
      for b in range(B):
        c = dict(g)
        c['B'] = 1
        c['masks'] = [g['masks'][b]]
        c['steps'] = [[row[b]] for row in steps]
        yield c
      for b in range(B):
        c = dict(g)
        c['B'] = B - 1
        c['masks'] = g['masks'][:b] + g['masks'][b + 1:]
        c['steps'] = [row[:b] + row[b + 1:] for row in steps]
        yield c
    if g.get('resets'):
      c = dict(g)
      c['resets'] = {}
      yield c
    if g.get('eval') and not oracle.startswith('eval'):
      c = dict(g)
      c['eval'] = False
      yield c
    # drop the first step
    if T > 1:
      c = dict(g)
      c['steps'] = steps[1:]
      c['resets'] = {}
      yield c
    # zero rewards, clear masks, clear terminations
    if any(a[1] for row in steps for a in row):
      c = dict(g)
      c['steps'] = [[[a[0], 0] for a in row] for row in steps]
      yield c
    for b in range(B):
      if g['masks'][b]:
        c = dict(g)
        c['masks'] = g['masks'][:b] + [0] + g['masks'][b + 1:]
        yield c
    for k in range(T):
      for b in range(B):
        if steps[k][b][0]:
          c = dict(g)
          c['steps'] = [[list(a) for a in row] for row in steps]
          c['steps'][k][b][0] = 0
          yield c
    if not g.get('jit', 1):
      c = dict(g)
      c['jit'] = 1
      yield c
    return
  if mode == 'unroll':
    if g['U'] > 1:
      for u in (1, g['U'] // 2, g['U'] - 1):
        if 0 < u < g['U']:
          yield dict(g, U=u)
    if g['B'] > 1:
      yield dict(g, B=1, masks=g['masks'][:1])
    if any(g['masks']):
      yield dict(g, masks=[0] * g['B'])
    if g.get('eval'):
      yield dict(g, eval=False)
    return
  if mode == 'evaluator':
    if g['B'] > 1:
      yield dict(g, B=1)
      yield dict(g, B=g['B'] - 1)
    if g['evals'] > 1:
      yield dict(g, evals=1)
    if g['L'] > 1:
      yield dict(g, L=g['L'] - 1)
    if g['r'] > 1:
      yield dict(g, r=1)
