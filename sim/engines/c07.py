"""C07 — batching and compilation are transparent; batch members independent.

Real code: the three pipelines under jax.vmap / jax.jit; VmapWrapper,
training.wrap, DomainRandomizationVmapWrapper over the scripted env and over
real bundled envs. Stub: ScriptEnv where used. Batch members are the parties;
the scheduler decides what the *other* members do (different state / action /
key, NaN, Inf, huge values, terminating every step, permuted order).

Oracles
  noninterference.bitwise  same compiled program, victim unchanged, everything
                           else changed: the victim's trajectory is identical
  batch_vs_solo            member i of the batched step vs the same step on
                           member i alone (re-synchronised every step), with a
                           multi-perturbation continuity filter
  jit_vs_eager             same, compiled vs op-by-op evaluation
"""
import numpy as np

from sim import core
from sim import modelgen

ENGINE = 'c07'
FIXED_PLAN = True   # run index -> mode schedule; no runs beyond the plan
SHRINK_BUDGET = (30, 420)
PIPES = ['generalized', 'spring', 'positional']
REAL_ENVS = [('inverted_pendulum', b) for b in PIPES] + \
            [('inverted_double_pendulum', b) for b in PIPES] + \
            [('reacher', b) for b in PIPES] + [('hopper', b) for b in PIPES]
FAULTS = ['values', 'nan', 'inf', 'huge', 'order']

QUICK = [('nonint_pipe', 24), ('solo_pipe', 24), ('jit_eager', 3),
         ('nonint_script', 12), ('solo_script', 8), ('nonint_env', 12),
         ('solo_env', 8), ('domain_rand', 4)]
THOROUGH = [('nonint_pipe', 350), ('solo_pipe', 350), ('jit_eager', 24),
            ('nonint_script', 200), ('solo_script', 100), ('nonint_env', 120),
            ('solo_env', 80), ('domain_rand', 36)]
X64_MODES = ('solo_pipe', 'jit_eager')


def _sched(tier):
  out = []
  for mode, n in (QUICK if tier == 'quick' else THOROUGH):
    out += [mode] * n
  order = sorted(range(len(out)), key=lambda i: (i * 7919) % len(out))
  return [out[i] for i in order]


def plan(prop, tier):
  return len(_sched(tier))


def worker_class(prop, tier, run):
  mode = _sched(tier)[run]
  if mode in X64_MODES:
    return {'x64': True, 'dev4': False}
  if mode in ('solo_env', 'domain_rand', 'nonint_env', 'nonint_script',
              'solo_script'):
    return {'x64': False, 'dev4': False}
  return {'x64': run % 2 == 0, 'dev4': False}


def chunks_per_worker(prop, tier):
  return 4


def worker_timeout(prop, tier):
  return 3000


def det_runs(prop, tier, n):
  return max(8, n // 20)


def cost(prop, tier, run):
  return {'jit_eager': 8, 'domain_rand': 4, 'solo_env': 3, 'nonint_env': 3
          }.get(_sched(tier)[run], 1)


def evidence_info(prop, tier):
  return {
      'rule': 'run = one generated model x one pipeline (or one wrapped env) x '
              'one batch of 2-8 members x 10-40 steps (pipelines: 2-20) x a '
              'victim member and a neighbour fault schedule; distinct = distinct '
              'genome hash; non-trivial = the victim trajectory / batch-vs-solo '
              'comparison was evaluated on >= 1 step',
      'time_unit': 'member steps',
      'state_measure': 'distinct (mode, pipeline/env, contacts?, wrapper, fault '
                       'kinds, precision) signatures',
      'components': {
          'real': ['generalized/spring/positional pipelines under vmap and '
                   'jit', 'VmapWrapper', 'EpisodeWrapper', 'AutoResetWrapper',
                   'DomainRandomizationVmapWrapper', 'bundled envs '
                   '(inverted_pendulum, inverted_double_pendulum, reacher, '
                   'hopper)'],
          'stub': ['ScriptEnv in the *_script modes']},
      'expected_probes': ['fault_values', 'fault_nan', 'fault_inf',
                          'fault_huge', 'fault_order', 'fault_terminating',
                          'victim_crossed_episode_boundary',
                          'contacts_active', 'jit_eager_checked',
                          'domain_rand_checked'] +
                         (['continuity_filter_used'] if tier == 'thorough' else []),
      'assumptions': [
          'non-interference is bitwise: both executions use the same compiled '
          'program and shapes',
          'batch-vs-solo / jit-vs-eager tolerance 1e-7 relative in float64 '
          '(pipelines) and 5e-4 in float32 (wrapped real envs on spring and '
          'positional); a deviation is a violation only where the step is '
          'continuous: the solo step is re-evaluated on 8 perturbations at each '
          'of 3 relative magnitudes and the point is classified discontinuous '
          'if any moves the output by >= 10 % of the deviation',
          'batch-vs-solo of the generalized pipeline is not run in float32'],
  }


# ----------------------------------------------------------------- generation

def _faults(r, B, victim, env=False):
  kinds = FAULTS + (['terminating'] if env else [])
  return {str(j): r.choice(kinds) for j in range(B) if j != victim}


def generate(prop, tier, seed, run):
  r = core.run_rng(seed, ENGINE, run)
  mode = _sched(tier)[run]
  wc = worker_class(prop, tier, run)
  B = r.randint(2, 8)
  victim = r.randrange(B)
  g = {'mode': mode, 'B': B, 'victim': victim, 'x64': wc['x64'],
       'seed': r.randint(0, 2**31 - 1)}
  if mode in ('nonint_pipe', 'solo_pipe', 'jit_eager'):
    contacts = r.random() < 0.6
    small = mode == 'jit_eager'
    model = modelgen.gen_model(
        r, roots=r.choice(['free', 'mixed', 'world']),
        collide=(1, 1) if contacts else (0, 0), plane=contacts,
        plane_ct=(1, 1), max_links=3 if small else (4 if tier == 'quick' else 6),
        gravity=[0.0, 0.0, -9.81],
        height=r.choice([0.05, 0.15, 0.3, 1.0]) if contacts else 1.0)
    g.update({'pipeline': PIPES[run % 3], 'model': model, 'contacts': contacts,
              'T': 1 if small else r.choice([2, 5, 10, 20]),
              'faults': _faults(r, B, victim)})
    if small:
      g['B'] = 2
      g['victim'] = 0
      g['faults'] = {'1': 'values'}
    return g
  if mode in ('nonint_script', 'solo_script'):
    g.update({'L': r.randint(1, 6), 'r': r.randint(1, 3),
              'T': r.randint(10, 40), 'pterm': r.choice([0.05, 0.2, 0.5]),
              'order': r.choice(['wrap', 'create']),
              'faults': _faults(r, B, victim, env=True)})
    return g
  env, backend = REAL_ENVS[r.randrange(len(REAL_ENVS))]
  if mode in ('solo_env', 'domain_rand') and backend == 'generalized':
    backend = r.choice(['spring', 'positional'])
  g.update({'env': env, 'backend': backend, 'T': r.randint(10, 40),
            'L': r.choice([5, 10, 15]),
            'faults': _faults(r, B, victim, env=True)})
  if mode == 'domain_rand':
    g['B'] = min(B, 4)
    g['victim'] = victim % g['B']
  return g


# ------------------------------------------------------------------ utilities

def _same_bytes(a, b):
  a, b = np.asarray(a), np.asarray(b)
  return a.shape == b.shape and a.dtype == b.dtype and a.tobytes() == b.tobytes()


def _pack(s):
  return (s.q, s.qd, s.x.pos, s.x.rot, s.xd.vel, s.xd.ang)


def _reldiff(a, b):
  import jax.numpy as jp
  out = 0.0
  for x, y in zip(a, b):
    if x.size == 0:
      continue
    sc = 1.0 + jp.maximum(jp.max(jp.abs(x)), jp.max(jp.abs(y)))
    out = jp.maximum(out, jp.max(jp.abs(x - y)) / sc)
  return out


def _apply_faults(rng, faults, victim, arrays, huge=1e6):
  """arrays: dict name -> np.ndarray with the member axis given by axis[name].
  Returns modified copies; the victim's slice is never touched."""
  out = {k: (v[0].copy(), v[1]) for k, v in arrays.items()}
  fired = {}
  others = [int(j) for j in faults]
  for j_s, kind in faults.items():
    j = int(j_s)
    fired[kind] = fired.get(kind, 0) + 1
    for name, (arr, ax) in out.items():
      sl = [slice(None)] * arr.ndim
      sl[ax] = j
      sl = tuple(sl)
      if not np.issubdtype(arr.dtype, np.floating):
        continue
      if kind == 'values':
        arr[sl] = rng.uniform(-1, 1, arr[sl].shape) * (1 + np.abs(arr[sl]))
      elif kind == 'nan':
        arr[sl] = np.nan
      elif kind == 'inf':
        arr[sl] = np.where(rng.random(arr[sl].shape) < 0.5, np.inf, -np.inf)
      elif kind == 'huge':
        arr[sl] = arr[sl] * huge + huge
  perm = [j for j in others if faults[str(j)] == 'order']
  if len(perm) >= 2:
    src = perm[1:] + perm[:1]
    for name, (arr, ax) in out.items():
      taken = np.take(arr, src, axis=ax).copy()
      for k, j in enumerate(perm):
        sl = [slice(None)] * arr.ndim
        sl[ax] = j
        sl2 = [slice(None)] * arr.ndim
        sl2[ax] = k
        arr[tuple(sl)] = taken[tuple(sl2)]
  return {k: v[0] for k, v in out.items()}, fired


# ------------------------------------------------------------ pipeline modes

def _pipe_inputs(sys, g):
  from sim import worldlib as wl
  rng = np.random.default_rng(g['seed'])
  B, T = g['B'], g['T']
  q0 = wl.sample_q(sys, rng, B, qmax=0.7, inside_limits=False, root_pos=0.3)
  qd0 = rng.uniform(-1, 1, (B, sys.qd_size()))
  ctrl = rng.uniform(-1.5, 1.5, (T, B, sys.act_size()))
  return rng, q0, qd0, ctrl


def _run_nonint_pipe(g, ctx, x64):
  import jax
  import jax.numpy as jp
  from sim import worldlib as wl
  P = wl.pipelines()[g['pipeline']]
  sig = f"{g['pipeline']}/nonint"
  with ctx.under_test('raises', 0, sig + '/load'):
    sys = wl.load(g['model'])
  if ctx.violations:
    return
  rng, q0, qd0, ctrl = _pipe_inputs(sys, g)
  v = g['victim']
  mod, fired = _apply_faults(rng, g['faults'], v,
                             {'q': (q0, 0), 'qd': (qd0, 0), 'ctrl': (ctrl, 1)})
  # keep root quaternions of "values" neighbours unit; NaN/Inf stay as they are
  for j_s, kind in g['faults'].items():
    if kind == 'values':
      for (t, qi, di) in wl.q_layout(sys):
        if t == 'f':
          mod['q'][int(j_s), qi + 3:qi + 7] = wl.rand_quat(rng)

  def prog(q, qd, c):
    st = jax.vmap(lambda a, b: P.init(sys, a, b))(q, qd)

    def body(st, ci):
      ns = jax.vmap(lambda s, a: P.step(sys, s, a))(st, ci)
      return ns, _pack(ns)
    _, out = jax.lax.scan(body, st, c)
    return _pack(st), out
  ctx.log.inp('nonint', [q0, qd0, ctrl, mod['q'], mod['qd'], mod['ctrl']])
  with ctx.under_test('raises', 0, sig + '/vmap_step'):
    f = jax.jit(prog)
    a0, a = f(jp.asarray(q0), jp.asarray(qd0), jp.asarray(ctrl))
    b0, b = f(jp.asarray(mod['q']), jp.asarray(mod['qd']), jp.asarray(mod['ctrl']))
  if ctx.violations:
    return
  for k, c in fired.items():
    ctx.fault('fault_' + k, c)
  names = ['q', 'qd', 'x.pos', 'x.rot', 'xd.vel', 'xd.ang']
  ctx.log.out('victim', [np.asarray(x)[:, v] for x in a])
  ctx.steps = g['T'] * g['B']
  ctx.sim_time = float(ctx.steps)
  ctx.nontrivial = True
  if g.get('contacts'):
    try:
      from brax import contact as bc
      from brax.base import Transform
      xs = Transform(pos=jp.asarray(np.asarray(a[2])[-1, v]),
                     rot=jp.asarray(np.asarray(a[3])[-1, v]))
      c = bc.get(sys, xs)
      if c is not None and (np.asarray(c.dist) < 0).any():
        ctx.probe('contacts_active')
    except Exception:  # pylint: disable=broad-except
      pass
  ctx.state(('nonint_pipe', g['pipeline'], bool(g.get('contacts')),
             sorted(set(g['faults'].values())), x64))
  for k, name in enumerate(names):
    if not _same_bytes(np.asarray(a0[k])[v], np.asarray(b0[k])[v]):
      ctx.violate('noninterference.bitwise', 0, sig, {
          'field': name, 'at': 'init', 'victim': v, 'faults': g['faults']})
      return
    av, bv = np.asarray(a[k])[:, v], np.asarray(b[k])[:, v]
    if not _same_bytes(av, bv):
      t = next(t for t in range(av.shape[0])
               if av[t].tobytes() != bv[t].tobytes())
      with np.errstate(invalid='ignore'):
        ctx.violate('noninterference.bitwise', t + 1, sig, {
            'field': name, 'step': t, 'victim': v, 'faults': g['faults'],
            'max_abs_diff': float(np.nanmax(np.abs(av[t] - bv[t])))
            if av[t].size else 0.0})
      return


def _continuity(ctx, f_solo, args, dev, scale_fn):
  """True if the solo function is discontinuous at `args` at round-off scale:
  some relative perturbation of size 1e-14..1e-10 moves the output by >= 10 %
  of the observed deviation."""
  import jax
  import jax.numpy as jp
  base = f_solo(*args)
  rng = np.random.default_rng(12345)
  ctx.probe('continuity_filter_used')
  eps0 = 1e-14 if jax.config.jax_enable_x64 else 1e-7
  for mag in (eps0, eps0 * 100, eps0 * 10000):
    for _ in range(8):
      pert = jax.tree_util.tree_map(
          lambda x: x * (1 + mag * jp.asarray(rng.uniform(-1, 1, np.shape(x))))
          if jp.issubdtype(jp.asarray(x).dtype, jp.floating) else x, args)
      out = f_solo(*pert)
      d = float(scale_fn(out, base))
      if d >= 0.1 * dev:
        return True
  return False


def _run_solo_pipe(g, ctx, x64, eager=False):
  import jax
  import jax.numpy as jp
  from sim import worldlib as wl
  P = wl.pipelines()[g['pipeline']]
  oracle = 'jit_vs_eager' if eager else 'batch_vs_solo'
  sig = f"{g['pipeline']}/{'jit_eager' if eager else 'solo'}"
  with ctx.under_test('raises', 0, sig + '/load'):
    sys = wl.load(g['model'])
  if ctx.violations:
    return
  rng, q0, qd0, ctrl = _pipe_inputs(sys, g)
  v = g['victim']
  tol = 1e-7 if x64 else 5e-4
  ctx.log.inp('solo', [q0, qd0, ctrl])
  ctx.state((g['mode'], g['pipeline'], bool(g.get('contacts')), x64))

  def solo_step(st, c):
    return P.step(sys, st, c)

  def sdiff(s1, s2):
    return _reldiff(_pack(s1), _pack(s2))
  if eager:
    with ctx.under_test('raises', 0, sig + '/eager'):
      st = jax.jit(lambda q, qd: P.init(sys, q, qd))(jp.asarray(q0[v]),
                                                     jp.asarray(qd0[v]))
      jitted = jax.jit(solo_step)(st, jp.asarray(ctrl[0, v]))
      with jax.disable_jit():
        eag = solo_step(st, jp.asarray(ctrl[0, v]))
    if ctx.violations:
      return
    ctx.probe('jit_eager_checked')
    ctx.steps = 1
    ctx.nontrivial = True
    dev = float(sdiff(jitted, eag))
    ctx.log.out('jit_eager', [np.asarray(x) for x in _pack(jitted)])
    ctx.probe_max('max:jit_eager_dev_over_tol', dev / tol)
    if dev > tol:
      if _continuity(ctx, jax.jit(solo_step), (st, jp.asarray(ctrl[0, v])), dev,
                     sdiff):
        ctx.probe('discontinuous_point')
        return
      ctx.violate(oracle, 1, sig, {'rel_dev': dev, 'tol': tol})
    return

  def prog(q, qd, c):
    stb = jax.vmap(lambda a, b: P.init(sys, a, b))(q, qd)
    sti = P.init(sys, q[v], qd[v])
    d0 = _reldiff(jax.tree_util.tree_map(lambda x: x[v], _pack(stb)), _pack(sti))

    def body(st, ci):
      ns = jax.vmap(lambda s, a: P.step(sys, s, a))(st, ci)
      mine = jax.tree_util.tree_map(lambda x: x[v], st)
      sol = P.step(sys, mine, ci[v])
      nsv = jax.tree_util.tree_map(lambda x: x[v], ns)
      return ns, (sdiff(nsv, sol), jp.all(jp.isfinite(nsv.q)) &
                  jp.all(jp.isfinite(nsv.qd)))
    _, (d, fin) = jax.lax.scan(body, stb, c)
    return d0, d, fin
  with ctx.under_test('raises', 0, sig + '/vmap_step'):
    d0, d, fin = [np.asarray(o) for o in jax.jit(prog)(
        jp.asarray(q0), jp.asarray(qd0), jp.asarray(ctrl))]
  if ctx.violations:
    return
  ctx.log.out('solo', [d0, d])
  if g.get('contacts'):
    try:
      from brax import contact as bc
      x0 = jax.jit(lambda q, qd: P.init(sys, q, qd).x)(jp.asarray(q0[v]),
                                                       jp.asarray(qd0[v]))
      c = bc.get(sys, x0)
      if c is not None and (np.asarray(c.dist) < 0).any():
        ctx.probe('contacts_active')
    except Exception:  # pylint: disable=broad-except
      pass
  alive = np.cumprod(fin).astype(bool)
  ctx.steps = int(alive.sum())
  ctx.sim_time = float(ctx.steps)
  ctx.nontrivial = ctx.steps > 0
  dd = np.where(alive, d, 0.0)
  ctx.probe_max('max:solo_dev_over_tol/' + g['pipeline'], float(max(dd.max(), d0) / tol))
  if d0 > tol:
    ctx.violate(oracle, 0, sig, {'at': 'init', 'rel_dev': float(d0), 'tol': tol})
    return
  bad = np.argwhere(dd > tol)
  if not len(bad):
    return
  # continuity filter: recover the batched state slice at the failing step
  t = int(bad[0][0])

  def upto(q, qd, c):
    stb = jax.vmap(lambda a, b: P.init(sys, a, b))(q, qd)

    def body(st, ci):
      return jax.vmap(lambda s, a: P.step(sys, s, a))(st, ci), 0
    st, _ = jax.lax.scan(body, stb, c)
    return jax.tree_util.tree_map(lambda x: x[v], st)
  st_t = jax.jit(upto)(jp.asarray(q0), jp.asarray(qd0), jp.asarray(ctrl[:t]))
  if _continuity(ctx, jax.jit(solo_step), (st_t, jp.asarray(ctrl[t, v])),
                 float(d[t]), sdiff):
    ctx.probe('discontinuous_point')
    # later steps start from the re-synchronised batched state, keep checking
    rest = [int(x[0]) for x in bad[1:4]]
    for t2 in rest:
      st_2 = jax.jit(upto)(jp.asarray(q0), jp.asarray(qd0), jp.asarray(ctrl[:t2]))
      if not _continuity(ctx, jax.jit(solo_step),
                         (st_2, jp.asarray(ctrl[t2, v])), float(d[t2]), sdiff):
        ctx.violate(oracle, t2 + 1, sig, {'step': t2, 'rel_dev': float(d[t2]),
                                          'tol': tol, 'victim': v})
        return
    return
  ctx.violate(oracle, t + 1, sig, {'step': t, 'rel_dev': float(d[t]),
                                   'tol': tol, 'victim': v,
                                   'link_types': sys.link_types})


# --------------------------------------------------------------- env modes

_ENVC = {}


def _script_env(g):
  from brax import envs
  from brax.envs.wrappers import training
  from sim import scriptenv
  if 'SE' not in _ENVC:
    _ENVC['SE'] = scriptenv.make_script_env(False)
    envs.register_environment('script_c07', _ENVC['SE'])
  if g.get('order', 'wrap') == 'wrap':
    return training.wrap(_ENVC['SE'](), episode_length=g['L'],
                         action_repeat=g['r'])
  return None


def _env_out(ns):
  return (ns.obs, ns.reward, ns.done, ns.info['truncation'], ns.info['steps'])


def _flat_leaves(x):
  import jax
  return [np.asarray(l) for l in jax.tree_util.tree_leaves(x)]


def _run_nonint_env(g, ctx, script):
  import jax
  import jax.numpy as jp
  from brax import envs
  from brax.envs.wrappers import training
  B, T, v = g['B'], g['T'], g['victim']
  rng = np.random.default_rng(g['seed'])
  if script:
    sig = 'script/nonint'
    env = _script_env(dict(g, order='wrap'))
    A = 2
    acts = np.stack([(rng.random((T, B)) < g['pterm']).astype(np.float32),
                     rng.integers(-3, 4, (T, B)).astype(np.float32)], -1)
    keys = np.stack([np.full(B, g['seed'] & 0xFFFF), rng.integers(0, 256, B)],
                    -1).astype(np.uint32)
  else:
    sig = f"{g['env']}/{g['backend']}/nonint"
    with ctx.under_test('raises', 0, sig + '/construct'):
      base = envs.get_environment(g['env'], backend=g['backend'])
      env = training.wrap(base, episode_length=g['L'], action_repeat=1)
    if ctx.violations:
      return
    A = base.action_size
    acts = rng.uniform(-1, 1, (T, B, A)).astype(np.float32)
    keys = np.asarray(jax.random.split(jax.random.PRNGKey(g['seed']), B))
  # neighbour faults on actions and reset keys
  mod, fired = _apply_faults(
      rng, {j: k for j, k in g['faults'].items() if k != 'terminating'}, v,
      {'acts': (acts, 1)})
  acts2 = mod['acts']
  keys2 = keys.copy()
  for j_s, kind in g['faults'].items():
    j = int(j_s)
    if kind in ('values', 'terminating'):
      keys2[j] = rng.integers(0, 2**31 - 1, keys.shape[1:]).astype(np.uint32) \
          if not script else np.array([keys[j][0], rng.integers(0, 256)], np.uint32)
    if kind == 'terminating':
      fired['terminating'] = fired.get('terminating', 0) + 1
      if script:
        acts2[:, j, 0] = 1.0
      else:
        acts2[:, j] = np.where(rng.random(acts2[:, j].shape) < 0.5, 1e4, -1e4)
  if script and g['faults']:
    # in script mode "order" permutes keys as well
    pass

  def roll(k, a):
    st = env.reset(k)

    def body(st, ai):
      ns = env.step(st, ai)
      return ns, _env_out(ns)
    _, out = jax.lax.scan(body, st, a)
    return (st.obs, st.done), out
  ctx.log.inp('nonint_env', [keys, acts, keys2, acts2])
  with ctx.under_test('raises', 0, sig + '/wrapped_step'):
    f = jax.jit(roll)
    a0, a = f(jp.asarray(keys), jp.asarray(acts))
    b0, b = f(jp.asarray(keys2), jp.asarray(acts2))
  if ctx.violations:
    return
  for k, c in fired.items():
    ctx.fault('fault_' + k, c)
  ctx.steps = T * B
  ctx.sim_time = float(T * B)
  ctx.nontrivial = True
  done_v = np.asarray(a[2])[:, v]
  if (done_v[:-1] > 0).any():
    ctx.probe('victim_crossed_episode_boundary')
  ctx.log.out('victim_env', [np.asarray(l)[:, v] for l in _flat_leaves(a)])
  ctx.state((g['mode'], g.get('env', 'script'), g.get('backend', ''),
             sorted(set(g['faults'].values())), bool((done_v > 0).any())))
  names = ['obs', 'reward', 'done', 'truncation', 'steps']
  for la, lb in zip(_flat_leaves(a0), _flat_leaves(b0)):
    if not _same_bytes(la[v], lb[v]):
      ctx.violate('noninterference.bitwise', 0, sig,
                  {'at': 'reset', 'victim': v, 'faults': g['faults']})
      return
  for k, name in enumerate(names):
    for la, lb in zip(_flat_leaves(a[k]), _flat_leaves(b[k])):
      av, bv = la[:, v], lb[:, v]
      if not _same_bytes(av, bv):
        t = next(t for t in range(av.shape[0])
                 if av[t].tobytes() != bv[t].tobytes())
        ctx.violate('noninterference.bitwise', t + 1, sig, {
            'field': name, 'step': t, 'victim': v, 'faults': g['faults'],
            'victim_done_before': bool((done_v[:t] > 0).any())})
        return


def _run_solo_env(g, ctx, script):
  """Batched wrapped env vs the same wrapper stack on the single member,
  re-synchronised every step from the batched state's slice."""
  import jax
  import jax.numpy as jp
  from brax import envs
  from brax.envs.wrappers import training
  B, T, v = g['B'], g['T'], g['victim']
  rng = np.random.default_rng(g['seed'])
  if script:
    sig = 'script/solo'
    env = _script_env(dict(g, order='wrap'))
    acts = np.stack([(rng.random((T, B)) < g['pterm']).astype(np.float32),
                     rng.integers(-3, 4, (T, B)).astype(np.float32)], -1)
    keys = np.stack([np.full(B, g['seed'] & 0xFFFF), rng.integers(0, 256, B)],
                    -1).astype(np.uint32)
    tol = 0.0
  else:
    sig = f"{g['env']}/{g['backend']}/solo"
    with ctx.under_test('raises', 0, sig + '/construct'):
      base = envs.get_environment(g['env'], backend=g['backend'])
      env = training.wrap(base, episode_length=g['L'], action_repeat=1)
    if ctx.violations:
      return
    acts = rng.uniform(-1, 1, (T, B, base.action_size)).astype(np.float32)
    keys = np.asarray(jax.random.split(jax.random.PRNGKey(g['seed']), B))
    tol = 5e-4

  def outdiff(o1, o2):
    d = 0.0
    for x, y in zip(jax.tree_util.tree_leaves(o1), jax.tree_util.tree_leaves(o2)):
      sc = 1.0 + jp.maximum(jp.max(jp.abs(x)), jp.max(jp.abs(y)))
      d = jp.maximum(d, jp.max(jp.abs(x - y)) / sc)
    return d

  def sl(tree):
    return jax.tree_util.tree_map(lambda x: x[v:v + 1], tree)

  def prog(k, a):
    stb = env.reset(k)
    sts = env.reset(k[v:v + 1])
    d0 = outdiff(sl((stb.obs, stb.done, stb.pipeline_state)),
                 (sts.obs, sts.done, sts.pipeline_state))

    def body(st, ai):
      ns = env.step(st, ai)
      sol = env.step(sl(st), ai[v:v + 1])
      return ns, (outdiff(sl(_env_out(ns)), _env_out(sol)), ns.done[v])
    _, (d, done) = jax.lax.scan(body, stb, a)
    return d0, d, done
  ctx.log.inp('solo_env', [keys, acts])
  with ctx.under_test('raises', 0, sig + '/wrapped_step'):
    d0, d, done = [np.asarray(o) for o in jax.jit(prog)(jp.asarray(keys),
                                                       jp.asarray(acts))]
  if ctx.violations:
    return
  ctx.log.out('solo_env', [d0, d, done])
  ctx.steps = T
  ctx.sim_time = float(T)
  ctx.nontrivial = True
  if (done[:-1] > 0).any():
    ctx.probe('victim_crossed_episode_boundary')
  ctx.state((g['mode'], g.get('env', 'script'), g.get('backend', ''),
             bool((done > 0).any())))
  with np.errstate(invalid='ignore'):
    dd = np.where(np.isfinite(d), d, 0.0)
  ctx.probe_max('max:solo_env_dev', float(max(dd.max(), d0)))
  if d0 > tol or (dd > tol).any():
    t = 0 if d0 > tol else int(np.argwhere(dd > tol)[0][0]) + 1
    if not script and t > 0:
      # continuity filter on the solo wrapped step
      def upto(k, a):
        st = env.reset(k)

        def body(st, ai):
          return env.step(st, ai), 0
        st, _ = jax.lax.scan(body, st, a)
        return sl(st)
      st_t = jax.jit(upto)(jp.asarray(keys), jp.asarray(acts[:t - 1]))
      fs = jax.jit(lambda s, a: _env_out(env.step(s, a)))
      if _continuity(ctx, fs, (st_t, jp.asarray(acts[t - 1, v:v + 1])),
                     float(dd[t - 1]), outdiff):
        ctx.probe('discontinuous_point')
        return
    ctx.violate('wrapper.batch_vs_solo', t, sig, {
        'step': t - 1, 'rel_dev': float(d0 if t == 0 else dd[t - 1]),
        'tol': tol, 'victim': v})


def _run_domain_rand(g, ctx):
  import functools
  import jax
  import jax.numpy as jp
  from brax import envs
  from brax.envs.wrappers import training
  B, T, v = g['B'], g['T'], g['victim']
  name, backend = g['env'], g['backend']
  sig = f'{name}/{backend}/domain_rand'

  def rand(sys_, rng):
    @jax.vmap
    def one(r):
      r1, r2, r3 = jax.random.split(r, 3)
      mass = sys_.link.inertia.mass * jax.random.uniform(
          r1, sys_.link.inertia.mass.shape, minval=0.7, maxval=1.3)
      gear = sys_.actuator.gear * jax.random.uniform(
          r2, sys_.actuator.gear.shape, minval=0.5, maxval=1.5)
      fr = sys_.geom_friction * jax.random.uniform(r3, (), minval=0.5, maxval=1.5)
      return mass, gear, fr
    mass, gear, fr = one(rng)
    sys_v = sys_.tree_replace({'link.inertia.mass': mass, 'actuator.gear': gear,
                               'geom_friction': fr})
    in_axes = jax.tree_util.tree_map(lambda x: None, sys_)
    in_axes = in_axes.tree_replace({'link.inertia.mass': 0, 'actuator.gear': 0,
                                    'geom_friction': 0})
    return sys_v, in_axes
  rkeys = jax.random.split(jax.random.PRNGKey(g['seed']), B)
  with ctx.under_test('raises', 0, sig + '/construct'):
    env = envs.get_environment(name, backend=backend)
    sys_v, in_axes = rand(env.sys, rkeys)
    wenv = training.wrap(env, episode_length=g['L'], action_repeat=1,
                         randomization_fn=functools.partial(rand, rng=rkeys))
    sys_i = jax.tree_util.tree_map(lambda x, ax: x[v] if ax == 0 else x, sys_v,
                                   in_axes)
    env_i = envs.get_environment(name, backend=backend)
    env_i.sys = sys_i
    w_i = training.wrap(env_i, episode_length=g['L'], action_repeat=1)
  if ctx.violations:
    return
  rng = np.random.default_rng(g['seed'])
  acts = rng.uniform(-1, 1, (T, B, env.action_size)).astype(np.float32)
  keys = jax.random.split(jax.random.PRNGKey(g['seed'] + 1), B)
  ctx.log.inp('dr', [np.asarray(keys), acts])
  tol = 5e-4

  def outdiff(o1, o2):
    d = 0.0
    for x, y in zip(jax.tree_util.tree_leaves(o1), jax.tree_util.tree_leaves(o2)):
      sc = 1.0 + jp.maximum(jp.max(jp.abs(x)), jp.max(jp.abs(y)))
      d = jp.maximum(d, jp.max(jp.abs(x - y)) / sc)
    return d

  def sl(tree):
    return jax.tree_util.tree_map(lambda x: x[v:v + 1], tree)

  def prog(k, a):
    stb = wenv.reset(k)
    sts = w_i.reset(k[v:v + 1])
    # the whole reset state, including what pipeline.init caches from the
    # system (mass, inertia, ...), must be the member's own
    d0 = outdiff(sl((stb.obs, stb.done, stb.pipeline_state)),
                 (sts.obs, sts.done, sts.pipeline_state))

    def body(st, ai):
      ns = wenv.step(st, ai)
      sol = w_i.step(sl(st), ai[v:v + 1])
      return ns, (outdiff(sl(_env_out(ns)), _env_out(sol)), ns.done[v])
    _, (d, done) = jax.lax.scan(body, stb, a)
    return d0, d, done
  with ctx.under_test('raises', 0, sig + '/wrapped_step'):
    d0, d, done = [np.asarray(o) for o in jax.jit(prog)(keys, jp.asarray(acts))]
  if ctx.violations:
    return
  ctx.log.out('dr', [d0, d, done])
  ctx.probe('domain_rand_checked')
  ctx.steps = T
  ctx.sim_time = float(T)
  ctx.nontrivial = True
  if (done[:-1] > 0).any():
    ctx.probe('victim_crossed_episode_boundary')
  ctx.state(('domain_rand', name, backend, bool((done > 0).any())))
  with np.errstate(invalid='ignore'):
    dd = np.where(np.isfinite(d), d, 0.0)
  ctx.probe_max('max:domain_rand_dev', float(max(dd.max(), d0)))
  if d0 > tol or (dd > tol).any():
    t = 0 if d0 > tol else int(np.argwhere(dd > tol)[0][0]) + 1
    if t > 0:
      def upto(k, a):
        st = wenv.reset(k)

        def body(st, ai):
          return wenv.step(st, ai), 0
        st, _ = jax.lax.scan(body, st, a)
        return sl(st)
      st_t = jax.jit(upto)(keys, jp.asarray(acts[:t - 1]))
      fs = jax.jit(lambda s, a: _env_out(w_i.step(s, a)))
      if _continuity(ctx, fs, (st_t, jp.asarray(acts[t - 1, v:v + 1])),
                     float(dd[t - 1]), outdiff):
        ctx.probe('discontinuous_point')
        return
    ctx.violate('domain_rand.batch_vs_solo', t, sig, {
        'step': t - 1, 'rel_dev': float(d0 if t == 0 else dd[t - 1]),
        'tol': tol, 'victim': v})


def execute(g, ctx):
  import jax
  x64 = bool(jax.config.jax_enable_x64)
  assert x64 == bool(g['x64'])
  mode = g['mode']
  if mode == 'nonint_pipe':
    _run_nonint_pipe(g, ctx, x64)
  elif mode == 'solo_pipe':
    _run_solo_pipe(g, ctx, x64)
  elif mode == 'jit_eager':
    _run_solo_pipe(g, ctx, x64, eager=True)
  elif mode == 'nonint_script':
    _run_nonint_env(g, ctx, True)
  elif mode == 'nonint_env':
    _run_nonint_env(g, ctx, False)
  elif mode == 'solo_script':
    _run_solo_env(g, ctx, True)
  elif mode == 'solo_env':
    _run_solo_env(g, ctx, False)
  else:
    _run_domain_rand(g, ctx)
  brief = {k: g[k] for k in g if k != 'model'}
  if 'model' in g:
    brief['n_links'] = len(g['model']['links'])
  return brief


def shrink_candidates(g, oracle):
  if g['T'] > 1:
    for t in (1, g['T'] // 2):
      if 0 < t < g['T']:
        yield dict(g, T=t)
  if g.get('faults') and len(g['faults']) > 1:
    for j in list(g['faults']):
      f = dict(g['faults'])
      f[j] = 'values'
      if f != g['faults']:
        yield dict(g, faults=f)
  if 'model' in g:
    for m in modelgen.shrink_model(g['model']):
      yield dict(g, model=m)
