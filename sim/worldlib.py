"""Helpers shared by the world engines (C04, C06, C07): loading generated
models with the real brax loader, sampling states, geometry computed by the
harness itself (never from brax's contact code)."""
import numpy as np

from sim import modelgen

_PIPE = {}


def pipelines():
  if not _PIPE:
    from brax.generalized import pipeline as gp
    from brax.positional import pipeline as pp
    from brax.spring import pipeline as sp
    _PIPE.update({'generalized': gp, 'spring': sp, 'positional': pp})
  return _PIPE


def load(model, **kw):
  from brax.io import mjcf
  return mjcf.loads(modelgen.to_xml(model, **kw))


def rand_quat(rng, n=None):
  q = rng.normal(size=(4,) if n is None else (n, 4))
  return q / np.linalg.norm(q, axis=-1, keepdims=True)


def q_layout(sys):
  """Per link: (type, q start, qd start)."""
  out = []
  qi = di = 0
  for t in sys.link_types:
    if t == 'f':
      out.append(('f', qi, di))
      qi += 7
      di += 6
    else:
      n = int(t)
      out.append((t, qi, di))
      qi += n
      di += n
  return out


def dof_limits(sys):
  """(lo, hi) arrays over qd indices (inf when unlimited)."""
  nv = sys.qd_size()
  if sys.dof.limit is None:
    return np.full(nv, -np.inf), np.full(nv, np.inf)
  return np.asarray(sys.dof.limit[0], float), np.asarray(sys.dof.limit[1], float)


def sample_q(sys, rng, B, *, qmax=1.0, inside_limits=True, margin=0.05,
             root_pos=1.0, keep_root=False):
  """[B, nq]: joint coordinates uniform in [-qmax, qmax] (clipped inside the
  limits by `margin` of the range), free roots at random poses."""
  q = np.tile(np.asarray(sys.init_q, float), (B, 1))
  lo, hi = dof_limits(sys)
  for (t, qi, di) in q_layout(sys):
    if t == 'f':
      if not keep_root:
        q[:, qi:qi + 3] += rng.uniform(-root_pos, root_pos, (B, 3))
        q[:, qi + 3:qi + 7] = rand_quat(rng, B)
      continue
    for k in range(int(t)):
      a, b = -qmax, qmax
      if inside_limits and np.isfinite(lo[di + k]):
        w = hi[di + k] - lo[di + k]
        la, lb = lo[di + k] + margin * w, hi[di + k] - margin * w
        a, b = max(a, la), min(b, lb)
        if a >= b:            # range does not meet [-qmax, qmax]: stay inside it
          a, b = la, lb
      q[:, qi + k] = rng.uniform(a, b, B)
  return q


def quat_idx(sys):
  idx = []
  for (t, qi, di) in q_layout(sys):
    if t == 'f':
      idx += [qi + 3, qi + 4, qi + 5, qi + 6]
  return idx


def quat_rot_np(q, v):
  """Rotate vector(s) v by quaternion(s) q (w, x, y, z); numpy."""
  w = q[..., :1]
  u = q[..., 1:]
  return v + 2 * np.cross(u, np.cross(u, v) + w * v)


def quat_mul_np(a, b):
  aw, ax, ay, az = np.moveaxis(a, -1, 0)
  bw, bx, by, bz = np.moveaxis(b, -1, 0)
  return np.stack([aw * bw - ax * bx - ay * by - az * bz,
                   aw * bx + ax * bw + ay * bz - az * by,
                   aw * by - ax * bz + ay * bw + az * bx,
                   aw * bz + ax * by - ay * bx + az * bw], -1)


def quat_to_mat_np(q):
  w, x, y, z = np.moveaxis(q, -1, 0)
  return np.stack([
      np.stack([1 - 2 * (y * y + z * z), 2 * (x * y - z * w), 2 * (x * z + y * w)], -1),
      np.stack([2 * (x * y + z * w), 1 - 2 * (x * x + z * z), 2 * (y * z - x * w)], -1),
      np.stack([2 * (x * z - y * w), 2 * (y * z + x * w), 1 - 2 * (x * x + y * y)], -1),
  ], -2)


def geom_table(model):
  """Collidable primitive geoms of a model genome:
  (link index in the loaded system, type, size, local pos, local quat,
  contype, conaffinity)."""
  out = []
  order = modelgen.emission_order(model)
  for li, i in enumerate(order):     # li = link index in the loaded system
    l = model['links'][i]
    for g in l['geoms']:
      out.append((li, g['type'], list(g['size']), np.asarray(g['pos'], float),
                  np.asarray(g['quat'], float), g['contype'], g['conaffinity']))
  return out


def bounding_radius(gtype, size):
  if gtype == 'sphere':
    return size[0]
  if gtype == 'capsule':
    return size[0] + size[1]
  return float(np.linalg.norm(size))


def plane_clearance(gtype, size, gpos, gquat, xpos, xrot):
  """Closed-form height of the lowest point of a primitive above z = 0 given
  the owning link's world pose (arrays broadcast over leading axes)."""
  wpos = xpos + quat_rot_np(xrot, gpos)
  wq = quat_mul_np(xrot, np.broadcast_to(gquat, xrot.shape))
  R = quat_to_mat_np(wq)
  z = wpos[..., 2]
  if gtype == 'sphere':
    return z - size[0]
  if gtype == 'capsule':
    return z - (size[0] + size[1] * np.abs(R[..., 2, 2]))
  ext = sum(np.abs(R[..., 2, k]) * size[k] for k in range(3))
  return z - ext


def geom_world_pos(gpos, xpos, xrot):
  return xpos + quat_rot_np(xrot, gpos)


def lowest_point(gtype, size, gpos, gquat, xpos, xrot):
  """World coordinates of the lowest material point of a primitive (single
  pose, numpy)."""
  wpos = xpos + quat_rot_np(xrot, gpos)
  wq = quat_mul_np(xrot, gquat)
  R = quat_to_mat_np(wq)
  down = np.array([0.0, 0.0, -1.0])
  if gtype == 'sphere':
    return wpos + size[0] * down
  if gtype == 'capsule':
    axis = R[:, 2]
    cap = wpos - np.sign(axis[2] if axis[2] != 0 else 1.0) * size[1] * axis
    return cap + size[0] * down
  sg = -np.sign(R[2, :])
  sg[sg == 0] = 1.0
  return wpos + R @ (sg * np.asarray(size))


def to_local(xpos, xrot, pw):
  qinv = xrot * np.array([1.0, -1.0, -1.0, -1.0])
  return quat_rot_np(qinv, pw - xpos)
