"""ScriptEnv: the only stubbed component of C15 (and part of C07).

A deterministic environment whose behaviour is decided entirely by the
scheduler: by the action it is sent (`action = [terminate?, reward]`) and by an
8-bit termination mask carried in its reset key (bit i set => the env
terminates at sub-step i+1 of every episode, which is how a termination in the
middle of an action repeat is produced). All values are small dyadic
rationals, so comparisons with the reference model are exact in float32.
"""
import sys
import types


def import_acting():
  """brax.training.acting imports brax.v1.envs only for two type aliases and
  brax.v1 cannot be imported on the pinned jax. Try the real import first and
  fall back to placeholder modules."""
  try:
    import brax.training.acting as acting
    return acting, False
  except Exception:  # pylint: disable=broad-except
    for m in [k for k in sys.modules
              if k.startswith('brax.v1') or k == 'brax.training.acting']:
      del sys.modules[m]
    v1 = types.ModuleType('brax.v1')
    v1e = types.ModuleType('brax.v1.envs')

    class _S:
      pass
    v1e.State = _S
    v1e.Env = _S
    v1e.Wrapper = _S
    v1.envs = v1e
    sys.modules['brax.v1'] = v1
    sys.modules['brax.v1.envs'] = v1e
    import brax.training.acting as acting
    return acting, True


def make_script_env(carry=False):
  """carry=True: the env derives stickiness from the incoming `state.done`
  as well (an env may legitimately rely on the wrappers clearing it)."""
  import jax
  from jax import numpy as jp
  from brax.envs.base import Env, State

  class ScriptEnv(Env):

    def reset(self, rng):
      word = rng[-1]
      mask = (word & 0xFF).astype(jp.int32)
      mid = mask.astype(jp.float32)
      z = jp.zeros((), jp.float32)
      ps = {'t': jp.zeros((), jp.int32), 'dead': z, 'id': mid, 'mask': mask,
            'mat': jp.zeros((2, 2), jp.float32)}
      obs = {'v': jp.stack([mid, z, z]), 'm': jp.zeros((2, 2), jp.float32)}
      return State(ps, obs, z, z, {'m': z, 'one': z, 'id': z})

    def step(self, state, action):
      ps = state.pipeline_state
      t = ps['t'] + 1
      bit = jp.where(t <= 8, (ps['mask'] >> jp.clip(t - 1, 0, 7)) & 1, 0)
      term = jp.maximum((action[0] > 0.5).astype(jp.float32),
                        bit.astype(jp.float32))
      dead = jp.maximum(ps['dead'], term)
      if carry:
        dead = jp.maximum(dead, state.done)
      rew = action[1] + 0.125 * t.astype(jp.float32)
      mat = ps['mat'] + rew
      obs = {'v': jp.stack([ps['id'], t.astype(jp.float32), dead]), 'm': mat}
      nps = {'t': t, 'dead': dead, 'id': ps['id'], 'mask': ps['mask'],
             'mat': mat}
      return state.replace(
          pipeline_state=nps, obs=obs, reward=rew, done=dead,
          metrics={**state.metrics, 'm': rew * 2, 'one': jp.ones(()),
                   'id': ps['id']})

    @property
    def observation_size(self):
      return 3

    @property
    def action_size(self):
      return 2

    @property
    def backend(self):
      return 'script'

  return ScriptEnv


class SimClock:
  """Simulated wall clock installed as `acting.time`; every read advances it
  by the next scheduled delta (cyclically)."""

  def __init__(self, deltas, start=1000.0):
    self.t = float(start)
    self.d = list(deltas)
    self.i = 0
    self.reads = 0

  def time(self):
    self.t += self.d[self.i % len(self.d)]
    self.i += 1
    self.reads += 1
    return self.t
