"""Model genome -> MJCF. Pure Python (random.Random), no numpy/jax.

The genome is a JSON document; `to_xml` renders it, the real
brax.io.mjcf.loads loads it. Only features validate_model accepts are
generated.
"""
import math


def rand_quat(r):
  while True:
    q = [r.gauss(0, 1) for _ in range(4)]
    n = math.sqrt(sum(x * x for x in q))
    if n > 1e-3:
      return [x / n for x in q]


def quat_to_mat(q):
  w, x, y, z = q
  return [
      [1 - 2 * (y * y + z * z), 2 * (x * y - z * w), 2 * (x * z + y * w)],
      [2 * (x * y + z * w), 1 - 2 * (x * x + z * z), 2 * (y * z - x * w)],
      [2 * (x * z - y * w), 2 * (y * z + x * w), 1 - 2 * (x * x + y * y)],
  ]


def quat_mul(a, b):
  aw, ax, ay, az = a
  bw, bx, by, bz = b
  return [aw * bw - ax * bx - ay * by - az * bz,
          aw * bx + ax * bw + ay * bz - az * by,
          aw * by - ax * bz + ay * bw + az * bx,
          aw * bz + ax * by - ay * bx + az * bw]


def fmt(v):
  if isinstance(v, (int, float)):
    return repr(float(v))
  return ' '.join(repr(float(x)) for x in v)


def gen_geom(r, collide=(0, 0), small=True):
  gt = r.choice(['sphere', 'capsule', 'box'])
  g = {'type': gt, 'pos': [r.uniform(-0.15, 0.15) for _ in range(3)],
       'quat': rand_quat(r), 'density': r.uniform(200, 3000),
       'contype': collide[0], 'conaffinity': collide[1]}
  if gt == 'sphere':
    g['size'] = [r.uniform(0.04, 0.12)]
  elif gt == 'capsule':
    g['size'] = [r.uniform(0.03, 0.08), r.uniform(0.05, 0.2)]
  else:
    g['size'] = [r.uniform(0.04, 0.12) for _ in range(3)]
  return g


def gen_model(r, *, roots='free', n_links=None, max_links=6, collide=(0, 0),
              plane=False, plane_ct=(0, 0), limits=True, actuators=True,
              gravity=None, springs=True, damping=True, pos_act=True,
              height=1.5, dts=(0.0005, 0.001, 0.002, 0.004), limit_p=0.5,
              shift_p=0.3):
  """roots: 'free' | 'world' | 'mixed'."""
  n_links = n_links or r.randint(1, max_links)
  links = []
  for i in range(n_links):
    parent = -1 if (i == 0 or r.random() < 0.25) else r.randrange(0, i)
    rt = None
    if parent == -1:
      rt = roots if roots in ('free', 'world') else r.choice(['free', 'world'])
    link = {'parent': parent, 'root': rt}
    link['pos'] = [r.uniform(-0.4, 0.4), r.uniform(-0.4, 0.4),
                   r.uniform(-0.4, 0.4) + (height if parent == -1 else 0.0)]
    link['quat'] = rand_quat(r) if r.random() < 0.8 else [1.0, 0.0, 0.0, 0.0]
    joints = []
    link['anchor'] = [0.0, 0.0, 0.0]
    if rt != 'free':
      kind = r.choice(['h', 's', 'sh'])
      n = r.randint(1, 3)
      R = quat_to_mat(rand_quat(r)) if r.random() < 0.8 else \
          [[1.0, 0.0, 0.0], [0.0, 1.0, 0.0], [0.0, 0.0, 1.0]]
      if r.random() < 0.5:   # either handedness
        for row in R:
          row[2] = -row[2]
      perm = [0, 1, 2]
      r.shuffle(perm)
      for k in range(n):
        if kind == 'h':
          t = 'hinge'
        elif kind == 's':
          t = 'slide'
        else:
          t = 'hinge' if (k == n - 1 and n > 1) else 'slide'
        j = {'type': t, 'axis': [R[0][perm[k]], R[1][perm[k]], R[2][perm[k]]]}
        if limits and r.random() < limit_p:
          j['range'] = [-r.uniform(0.3, 1.2), r.uniform(0.3, 1.2)]
          if r.random() < shift_p:
            # a range that need not contain 0 (legal MJCF; qpos0 outside it)
            c = r.choice([-1, 1]) * r.uniform(0.2, 0.8)
            w = r.uniform(0.2, 0.8)
            j['range'] = [c - 0.5 * w, c + 0.5 * w]
        if damping and r.random() < 0.4:
          j['damping'] = r.uniform(0.05, 1.0)
        if r.random() < 0.3:
          j['armature'] = r.uniform(0.01, 0.1)
        if springs and r.random() < 0.3:
          j['stiffness'] = r.uniform(1, 20)
        joints.append(j)
      if r.random() < 0.5:
        link['anchor'] = [r.uniform(-0.1, 0.1) for _ in range(3)]
    link['joints'] = joints
    link['geoms'] = [gen_geom(r, collide) for _ in range(r.randint(1, 2))]
    links.append(link)
  acts = []
  if actuators:
    jn = [(i, k) for i, l in enumerate(links) for k in range(len(l['joints']))]
    for _ in range(r.randint(0, 4)):
      if not jn:
        break
      i, k = r.choice(jn)
      kind = r.choice(['motor', 'position', 'velocity']) if pos_act else 'motor'
      a = {'kind': kind, 'joint': [i, k], 'gear': r.uniform(0.5, 30)}
      if kind == 'position':
        a['kp'] = r.uniform(1, 20)
      if kind == 'velocity':
        a['kv'] = r.uniform(0.1, 5)
      if r.random() < 0.5:
        a['ctrlrange'] = [-r.uniform(0.3, 1.5), r.uniform(0.3, 1.5)]
      if r.random() < 0.3:
        a['forcerange'] = [-r.uniform(0.5, 5), r.uniform(0.5, 5)]
      acts.append(a)
  if gravity is None:
    gravity = [r.uniform(-2, 2), r.uniform(-2, 2), r.uniform(-10, 10)]
  return {'links': links, 'acts': acts, 'dt': r.choice(list(dts)),
          'gravity': list(gravity), 'plane': bool(plane),
          'plane_ct': list(plane_ct)}


def emission_order(m):
  """Genome link indices in the order the bodies are emitted (depth first),
  which is the link order of the loaded brax system."""
  children = {i: [] for i in range(-1, len(m['links']))}
  for i, l in enumerate(m['links']):
    children[l['parent']].append(i)
  order = []

  def walk(i):
    order.append(i)
    for c in children[i]:
      walk(c)
  for rt in children[-1]:
    walk(rt)
  return order


def to_xml(m, *, collide_off=False, strip_limits=False):
  """collide_off: render every geom (and the plane) with contype =
  conaffinity = 0 (the inert twin). strip_limits: drop every range."""
  out = ['<mujoco>', '<compiler angle="radian"/>',
         f'<option timestep="{fmt(m["dt"])}" gravity="{fmt(m["gravity"])}"/>']
  cust = []
  if 'elasticity' in m:
    cust.append(f'<numeric data="{fmt(m["elasticity"])}" name="elasticity"/>')
  for k in ('vel_damping', 'ang_damping', 'spring_mass_scale',
            'spring_inertia_scale'):
    if k in m:
      cust.append(f'<numeric data="{fmt(m[k])}" name="{k}"/>')
  if cust:
    out.append('<custom>' + ''.join(cust) + '</custom>')
  out.append('<worldbody>')
  if m.get('plane'):
    ct, ca = (0, 0) if collide_off else m.get('plane_ct', (1, 1))
    out.append(f'<geom name="floor" type="plane" size="10 10 0.1" '
               f'contype="{ct}" conaffinity="{ca}"/>')
  children = {i: [] for i in range(-1, len(m['links']))}
  for i, l in enumerate(m['links']):
    children[l['parent']].append(i)

  def emit(i):
    l = m['links'][i]
    out.append(f'<body name="b{i}" pos="{fmt(l["pos"])}" quat="{fmt(l["quat"])}">')
    if l['root'] == 'free':
      out.append('<freejoint/>')
    for k, j in enumerate(l['joints']):
      s = (f'<joint name="j{i}_{k}" type="{j["type"]}" axis="{fmt(j["axis"])}" '
           f'pos="{fmt(l["anchor"])}"')
      if 'range' in j and not strip_limits:
        s += f' limited="true" range="{fmt(j["range"])}"'
      for key in ('damping', 'armature', 'stiffness'):
        if key in j:
          s += f' {key}="{fmt(j[key])}"'
      out.append(s + '/>')
    for gi, g in enumerate(l['geoms']):
      ct, ca = (0, 0) if collide_off else (g['contype'], g['conaffinity'])
      s = (f'<geom name="g{i}_{gi}" type="{g["type"]}" size="{fmt(g["size"])}" '
           f'pos="{fmt(g["pos"])}" quat="{fmt(g["quat"])}" '
           f'density="{fmt(g["density"])}" contype="{ct}" conaffinity="{ca}"')
      if 'friction' in g:
        s += f' friction="{fmt(g["friction"])}"'
      out.append(s + '/>')
    for c in children[i]:
      emit(c)
    out.append('</body>')

  for rt in children[-1]:
    emit(rt)
  out.append('</worldbody>')
  if m['acts']:
    out.append('<actuator>')
    for a in m['acts']:
      i, k = a['joint']
      s = f'<{a["kind"]} joint="j{i}_{k}" gear="{fmt(a["gear"])}"'
      if 'kp' in a:
        s += f' kp="{fmt(a["kp"])}"'
      if 'kv' in a:
        s += f' kv="{fmt(a["kv"])}"'
      if 'ctrlrange' in a:
        s += f' ctrllimited="true" ctrlrange="{fmt(a["ctrlrange"])}"'
      if 'forcerange' in a:
        s += f' forcelimited="true" forcerange="{fmt(a["forcerange"])}"'
      out.append(s + '/>')
    out.append('</actuator>')
  out.append('</mujoco>')
  return '\n'.join(out)


# ------------------------------------------------------------ model shrinking

def _drop_link(m, i):
  """Remove leaf link i (no children), fixing parents and actuators."""
  if any(l['parent'] == i for l in m['links']) or len(m['links']) <= 1:
    return None
  links = []
  for k, l in enumerate(m['links']):
    if k == i:
      continue
    l = dict(l)
    if l['parent'] > i:
      l['parent'] -= 1
    links.append(l)
  acts = []
  for a in m['acts']:
    if a['joint'][0] == i:
      continue
    a = dict(a)
    if a['joint'][0] > i:
      a['joint'] = [a['joint'][0] - 1, a['joint'][1]]
    acts.append(a)
  return dict(m, links=links, acts=acts)


def shrink_model(m):
  """Yields simpler model genomes (structure preserving index maps are the
  caller's business: lanes are regenerated from seeds, so any model is valid)."""
  n = len(m['links'])
  for i in reversed(range(n)):
    c = _drop_link(m, i)
    if c is not None:
      yield c
  for ai in reversed(range(len(m['acts']))):
    yield dict(m, acts=m['acts'][:ai] + m['acts'][ai + 1:])
  for i, l in enumerate(m['links']):
    if len(l['joints']) > 1:
      k = len(l['joints']) - 1
      if not any(a['joint'] == [i, k] for a in m['acts']):
        l2 = dict(l, joints=l['joints'][:-1])
        yield dict(m, links=m['links'][:i] + [l2] + m['links'][i + 1:])
    if len(l['geoms']) > 1:
      l2 = dict(l, geoms=l['geoms'][:1])
      yield dict(m, links=m['links'][:i] + [l2] + m['links'][i + 1:])
    for k, j in enumerate(l['joints']):
      for key in ('range', 'damping', 'armature', 'stiffness'):
        if key in j:
          j2 = {a: b for a, b in j.items() if a != key}
          l2 = dict(l, joints=l['joints'][:k] + [j2] + l['joints'][k + 1:])
          yield dict(m, links=m['links'][:i] + [l2] + m['links'][i + 1:])
    if any(l['anchor']):
      l2 = dict(l, anchor=[0.0, 0.0, 0.0])
      yield dict(m, links=m['links'][:i] + [l2] + m['links'][i + 1:])
    if l['quat'] != [1.0, 0.0, 0.0, 0.0]:
      l2 = dict(l, quat=[1.0, 0.0, 0.0, 0.0])
      yield dict(m, links=m['links'][:i] + [l2] + m['links'][i + 1:])
