"""Shared simulator machinery: seed derivation, event log, digests, results.

Nothing here imports jax; array hashing goes through numpy only.
"""
import hashlib
import json
import os
import random
import struct

DEFAULT_SEED = 20261001
VERIF = os.path.dirname(os.path.dirname(os.path.abspath(__file__)))

XLA_BASE = '--xla_cpu_multi_thread_eigen=false intra_op_parallelism_threads=1'
XLA_DEV4 = '--xla_force_host_platform_device_count=4 ' + XLA_BASE


def derive_int(seed, engine, run, salt=''):
  h = hashlib.sha256(f'{seed}/{engine}/{run}/{salt}'.encode()).digest()
  return int.from_bytes(h[:8], 'big')


def run_rng(seed, engine, run, salt=''):
  """The one PRNG of a run; every choice of the run is drawn from it."""
  return random.Random(derive_int(seed, engine, run, salt))


def canon(obj):
  """Canonical JSON text (sorted keys, repr floats) used for genome hashes."""
  return json.dumps(obj, sort_keys=True, separators=(',', ':'))


def genome_hash(genome):
  return hashlib.sha256(canon(genome).encode()).hexdigest()[:16]


def _feed(h, x):
  import numpy as np
  if isinstance(x, dict):
    for k in sorted(x):
      h.update(str(k).encode())
      _feed(h, x[k])
  elif isinstance(x, (list, tuple)):
    h.update(b'[')
    for y in x:
      _feed(h, y)
    h.update(b']')
  elif isinstance(x, (str, bytes)):
    h.update(x.encode() if isinstance(x, str) else x)
  elif isinstance(x, bool) or x is None:
    h.update(repr(x).encode())
  elif isinstance(x, int):
    h.update(str(x).encode())
  elif isinstance(x, float):
    h.update(struct.pack('<d', x))
  else:
    a = np.asarray(x)
    h.update(str(a.dtype).encode())
    h.update(str(a.shape).encode())
    h.update(np.ascontiguousarray(a).tobytes())


class EventLog:
  """Per-run event list. `inp` hashes what the harness fed to the system,
  `out` hashes what the system returned. Never draws randomness."""

  def __init__(self):
    self._in = hashlib.sha256()
    self._out = hashlib.sha256()
    self.n_in = 0
    self.n_out = 0

  def inp(self, tag, x):
    self._in.update(tag.encode())
    _feed(self._in, x)
    self.n_in += 1

  def out(self, tag, x):
    self._out.update(tag.encode())
    _feed(self._out, x)
    self.n_out += 1

  def digests(self):
    return self._in.hexdigest()[:24], self._out.hexdigest()[:24]


class Ctx:
  """Execution context handed to an engine's execute()."""

  def __init__(self):
    self.log = EventLog()
    self.violations = []
    self.faults = {}
    self.probes = {}
    self.states = set()
    self.steps = 0
    self.sim_time = 0.0
    self.nontrivial = False
    self.notes = {}

  def fault(self, kind, n=1):
    self.faults[kind] = self.faults.get(kind, 0) + n

  def probe(self, kind, n=1):
    if n:
      self.probes[kind] = self.probes.get(kind, 0) + n

  def probe_max(self, kind, v):
    v = float(v)
    if v == v:
      self.probes[kind] = max(self.probes.get(kind, v), v)

  def state(self, sig):
    self.states.add(sig if isinstance(sig, str) else canon(sig))

  def violate(self, oracle, step, sig, detail):
    """Record a violation. `sig` is the structural signature used for the
    known-findings match; `detail` is free-form (expected/observed)."""
    self.violations.append(
        {'oracle': oracle, 'step': int(step), 'sig': sig, 'detail': detail})

  class _UnderTest:

    def __init__(self, ctx, oracle, step, sig):
      self.ctx, self.oracle, self.step, self.sig = ctx, oracle, step, sig
      self.raised = None

    def __enter__(self):
      return self

    def __exit__(self, et, ev, tb):
      if et is None:
        return False
      if issubclass(et, (KeyboardInterrupt, SystemExit, MemoryError)):
        return False
      self.raised = ev
      import traceback
      last = traceback.extract_tb(tb)[-6:]
      where = ' <- '.join(f'{os.path.basename(f.filename)}:{f.lineno}'
                          for f in reversed(last))
      self.ctx.violate(self.oracle, self.step, self.sig,
                       {'exception': f'{et.__name__}: {str(ev)[:300]}',
                        'where': where})
      return True

  def under_test(self, oracle, step, sig):
    """Any exception escaping from the block is a `raises` violation: the
    harness only puts calls into the system under test, with arguments inside
    the property's stated domain, in such a block."""
    return Ctx._UnderTest(self, oracle, step, sig)

  def result(self, run, genome, sample=None):
    din, dout = self.log.digests()
    return {
        'run': run,
        'ghash': genome_hash(genome),
        'in_digest': din,
        'out_digest': dout,
        'violations': self.violations,
        'faults': self.faults,
        'probes': self.probes,
        'states': sorted(self.states),
        'steps': self.steps,
        'sim_time': self.sim_time,
        'nontrivial': bool(self.nontrivial),
        'notes': self.notes,
        'sample': sample,
    }


def load_known_findings():
  p = os.path.join(VERIF, 'known_findings.json')
  if not os.path.exists(p):
    return []
  with open(p) as f:
    return json.load(f).get('findings', [])


def match_known(violation, prop, findings):
  """Return the open finding whose key is a prefix of the violation's full key
  `<prop>/<oracle>/<sig>`; fixed entries never match."""
  key = f"{prop}/{violation['oracle']}/{violation['sig']}"
  for f in findings:
    if f.get('status') != 'open' or f.get('property') != prop:
      continue
    if key == f['key'] or key.startswith(f['key'].rstrip('/') + '/'):
      return f
  return None
