#!/venv/bin/python
"""Replay self-test: for one mutant per engine, run the check against a scratch
copy (must exit 1 and name a replay file), replay that file against the scratch
copy in a fresh process (must reproduce: exit 1, exact=True) and against the
unchanged /repo (must exit 0). Writes tools/selftest_RESULTS.json."""
import json, os, re, shutil, subprocess, sys
V = os.path.dirname(os.path.dirname(os.path.abspath(__file__)))
sys.path.insert(0, os.path.join(V, 'tools'))
import importlib.util
spec = importlib.util.spec_from_file_location('mutlist', os.path.join(V, 'tools', 'mutants', 'list.py'))
ml = importlib.util.module_from_spec(spec); spec.loader.exec_module(ml)
PICK = {'C17': ('q03', 300), 'C15': ('e05', 200), 'C18': ('s04', 200), 'C16': ('v05', 0),
        'C04': ('n02', 32), 'C06': ('k10', 0), 'C07': ('b03', 0)}

def main():
  only = sys.argv[1].split(',') if len(sys.argv) > 1 else list(PICK)
  out = {}
  for prop in only:
    mid, runs = PICK[prop]
    m = [x for x in ml.MUTANTS if x['id'] == mid][0]
    scratch = f'/var/tmp/brax-selftest-{prop}'
    shutil.rmtree(scratch, ignore_errors=True)
    os.makedirs(scratch)
    shutil.copytree('/repo/brax', scratch + '/brax', ignore=shutil.ignore_patterns('__pycache__', 'experimental'))
    for (rel, old, new) in m['edits']:
      p = os.path.join(scratch, rel); s = open(p).read(); assert s.count(old) == 1
      open(p, 'w').write(s.replace(old, new))
    cmd = [V + '/check', prop, 'quick', '--repo', scratch, '--no-evidence', '--no-det']
    if runs: cmd += ['--runs', str(runs)]
    if prop == 'C16': cmd += ['--only', '0,1,2']
    r = subprocess.run(cmd, capture_output=True, text=True)
    paths = re.findall(r'VIOLATION property=\S+ replay=(\S+)', r.stdout)
    rec = {'mutant': mid, 'check_rc': r.returncode, 'replays': paths}
    if paths:
      a = subprocess.run([V + '/check', prop, '--replay', paths[0], '--repo', scratch], capture_output=True, text=True)
      b = subprocess.run([V + '/check', prop, '--replay', paths[0]], capture_output=True, text=True)
      rec.update({'replay_on_mutant_rc': a.returncode, 'replay_exact': 'exact=True' in a.stdout,
                  'minimised': paths[0].endswith('.min.json'),
                  'replay_on_clean_rc': b.returncode})
    rec['ok'] = (rec['check_rc'] == 1 and bool(paths) and rec.get('replay_on_mutant_rc') == 1
                 and rec.get('replay_exact') and rec.get('replay_on_clean_rc') == 0)
    out[prop] = rec
    print(prop, rec, flush=True)
    shutil.rmtree(scratch, ignore_errors=True)
    json.dump(out, open(V + '/tools/selftest_RESULTS.json', 'w'), indent=1)
  return 0 if all(r['ok'] for r in out.values()) else 1

if __name__ == '__main__':
  sys.exit(main())
