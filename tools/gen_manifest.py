#!/venv/bin/python
"""Writes /verif/MANIFEST.json from one table (keeps it valid and consistent)."""
import json, os
V = os.path.dirname(os.path.dirname(os.path.abspath(__file__)))

CLAIMED = {
  'C17': dict(engine='queue', design='5/C17',
     technique='deterministic simulation: seeded operation histories (+ systematic op-sequence tree) with refused-operation faults, checked op-by-op against a sequential queue model per shard',
     text='Seeded simulation of insert/sample/size histories on the real Queue, UniformSamplingQueue, PmapWrapper and PjitWrapper (4 forced host devices), every operation compared exactly with a list+cursor reference model per shard; records carry unique serials and checksums; refused operations are injected between accepted ones. Sampled exploration (plus completely walked small sub-spaces, stated in the evidence); a clean batch is evidence, not proof.',
     note='Trusted: the 40-line QueueModel; jax CPU with pinned XLA flags. Assumes insert sizes are multiples of the shard count and no outer jit around insert/sample.'),
  'C15': dict(engine='episodes', design='5/C15',
     technique='deterministic simulation: seeded per-member termination/reward schedules (all 2^8 sub-step masks as a 256-member batch + random histories), external resets and a simulated wall clock, checked step-by-step against a per-member sequential episode model',
     text='The real training.wrap / envs.create wrapper stacks, EvalWrapper, actor_step, generate_unroll and Evaluator are driven by a scripted environment whose terminations (also in the middle of an action repeat, on consecutive steps, exactly at the time limit) and rewards are decided by the seeded scheduler; every wrapped step of every member is compared exactly with a 60-line reference model, episode lengths with an independent closed form, Evaluator metrics with the model under two simulated clock schedules. Sampled exploration plus completely covered 2^8 mask sub-space per listed configuration.',
     note='Trusted: EpisodeModel and ScriptEnv (stubs written for the check); termination is sticky within an episode; r not dividing L is read as cut at the first wrapped step reaching episode_length; timing metrics are not asserted.'),
  'C18': dict(engine='stats', design='5/C18',
     technique='deterministic simulation: one seeded sample stream delivered under seeded schedules (cuts, batch axes, order, integer weights incl. 0, sharding over forced host devices with psum), statistics after every update compared with the population statistics of everything delivered',
     text='The real init_state/update/normalize/denormalize are fed one stream under different delivery schedules decided by the seeded scheduler (partition into 1-8 batches, 1-2 batch axes, permutation, weights 0..4 as multiplicities, zero-weight batches/devices, pmap and vmap(axis_name) psum over 2-4 devices, jit/eager, clipping bounds); after every update count (exact), mean and variance on every device are compared with float64 two-pass population statistics; round trip checked incl. bitwise integer leaves. Sampled exploration in float64 (tol 1e-9) and float32 (tol 2e-4).',
     note='Trusted: numpy float64 two-pass reference. First batch has positive total weight; max_abs_value=None.'),
  'C16': dict(engine='envs', design='5/C16',
     technique='deterministic simulation: seeded reset keys and adversarial action schedules (uniform, bang-bang, held, chatter, zero-then-bang) with auto-reset boundaries inside the history; per-step on-device safety invariants; cross-process replay digests and duplicate-member determinism',
     text='All 11 registered physics environments on every native backend they accept are driven through training.wrap for 200-1000 wrapped steps in batches of 8-128, plus held-corner sweeps (64 members each holding its own extreme corner of the action box for 96 steps) on humanoid and humanoidstandup/generalized in every tier; after every step all observations, rewards, done flags, q, qd, link poses and velocities must be finite and link quaternions unit; shapes match the declared sizes; done=0 at reset; the same genome re-executed in another process and a duplicated member must give bit-identical results. Sampled exploration, float32 (the precision the bundled envs run in).',
     note='Trusted: XLA CPU with pinned flags. mjx backend not exercised. Unit-quaternion tolerance 2e-6 in float32. swimmer/generalized cannot be stepped on the pinned jax (jp.clip a_min keyword): listed in known_findings.json, printed as KNOWN-FINDING on every run.'),
  'C04': dict(engine='c04', design='5/C04',
     technique='deterministic simulation: seeded worlds (generated free-rooted forests, two- and three-body collision scenes, rest scenes) stepped as vmapped lanes with seeded control schedules and kick/spin/displace disturbances injected through pipeline.init; conservation invariant evaluated after every step',
     text='Generated models are loaded with the real mjcf loader and stepped by the real spring and positional pipelines for 1-200 steps under seeded control schedules (random, bang-bang, held, beyond range, unstable gains) and re-initialisation kicks; after every step total linear momentum must have changed by exactly M g dt (1e-9 relative in float64). Rest scenes: all three pipelines, q inside limits, no gravity/control/contact, must stay at rest. Sampled exploration; known defect (per-link impulse averaging with >= 3 bodies in contact) is listed in known_findings.json.',
     note='Trusted: harness arithmetic on public state fields (mass, xd_i.vel). float32 momentum runs are a gross-error net only (5e-3 + round-off floor); the rest case runs in float64 only. Self-colliding forests enable collisions on exactly two links; the multi-body averaging defect is demonstrated by the threebody mode and listed in known_findings.json.'),
  'C06': dict(engine='c06', design='5/C06',
     technique='deterministic simulation: lock-step twin worlds (collisions disabled / limits removed) under seeded states, controls and workload classes (far, near-approach, grazing, approach-to-limit) with a harness-computed geometric guard; primitive drop/push/rebound histories with per-step invariants',
     text='Twin worlds are stepped in lock-step by the real pipelines and compared step by step while a conservative separation / inside-limits guard computed by the harness (closed-form support heights, bounding spheres, range margins) holds; penetrating primitives must never be displaced further into the ground; dropped spheres, flat boxes and lying capsules must not sink more than 6 cm and must settle at the analytic height (every step of a 3 s history at dt = 1 ms); sphere rebound ratio within the margins stated in the property. Sampled exploration.',
     note='Trusted: harness geometry (cross-checked against brute-force corners and brax distances). Thresholds for resting from a calibration sweep; dt = 1 ms only. Limit twins and positional plane twins use no springs/actuators (the positional predictor can reach a limit or the plane inside a step under stiff actuation); float32 twins compare the first guarded step only.'),
  'C07': dict(engine='c07', design='5/C07',
     technique='deterministic simulation: batch members as parties; seeded neighbour fault schedules (different values, NaN, Inf, huge, permuted order, terminating every step) against an unchanged victim member, bitwise comparison of the victim trajectory; batched vs solo and jit vs eager with a perturbation-based continuity filter',
     text='The three pipelines under vmap/jit, VmapWrapper/EpisodeWrapper/AutoResetWrapper over a scripted env and over real bundled envs, and the domain-randomisation wrapper are executed twice with the victim member unchanged and every other member changed or poisoned: the victim trajectory (10-40 steps across auto-reset boundaries) must be bit-identical. Batched step vs solo step (re-synchronised each step) and jit vs eager agree to 1e-7 (float64) wherever the step is continuous (multi-perturbation filter). Sampled exploration.',
     note='Trusted: XLA CPU determinism with pinned flags; ScriptEnv stub in the *_script modes. Batch-vs-solo of wrapped real envs runs in float32 on spring/positional with tolerance 5e-4.'),
}

NA = {
 'C01': 'forward kinematics vs MuJoCo for one pose is a single call of a pure function of (model, q, qd); no history, schedule, clock, party or fault for a simulator to own (needs differential testing).',
 'C02': 'mass matrix / bias / one contact-free step vs MuJoCo: single-call differential fact about a pure function.',
 'C03': 'finiteness and value of jax.grad of a few steps: derivative of a pure function at a point; nothing is scheduled or injected.',
 'C05': 'equivariance under rigid transforms / sibling order / document merging: metamorphic relation between two inputs of a pure function.',
 'C08': 'joint<->world coordinate round trip: composition of pure functions on one input.',
 'C09': 'algebraic identities of brax.math / brax.base: exact lattice evaluation or proof, no execution history.',
 'C10': 'contact.get(sys, x) vs closed-form distances: geometry of one configuration, pure function.',
 'C11': 'actuator.to_tau vs MuJoCo actuator force: pure function of (model, q, qd, ctrl).',
 'C12': 'O(dt) drift is a convergence-order statement about a deterministic integrator as dt -> 0 for an undisturbed system; nothing is scheduled or injected.',
 'C13': 'fuse_bodies preserves geometry: an XML-to-XML pure function.',
 'C14': 'rejecting unsupported features is a pure function of the document; injecting a feature is input mutation, not a fault in an execution.',
 'C19': 'compute_gae equals its defining sum: pure function of six arrays.',
 'C20': 'tanh-normal distribution identities and the PPO inference function: pure functions of parameters and key.',
}

def main():
  checks = []
  for pid in sorted(CLAIMED):
    c = CLAIMED[pid]
    checks.append({
      'property_id': pid,
      'quick_cmd': f'./check {pid} quick',
      'thorough_cmd': f'./check {pid} thorough',
      'evidence_file': f'/verif/evidence/{pid}.json',
      'replay_cmd_template': f'./check {pid} --replay {{path}}',
      'engine': c['engine'],
      'level_claimed': {'category': 'exploration', 'text': c['text'], 'design_ref': 'DESIGN.md section ' + c['design']},
      'level_note': c['note'],
      'technique': c['technique'],
    })
  props = [json.loads(l)['id'] for l in open(os.path.join(V, 'properties.jsonl'))]
  na = [{'property_id': p, 'reason': NA.get(p, 'check not built yet (claimed in DESIGN.md; will be registered when its engine exists)')}
        for p in props if p not in CLAIMED]
  engines = {}
  for pid, c in CLAIMED.items():
    engines.setdefault(c['engine'], []).append(pid)
  m = {
    'version': 1,
    'setup_cmd': '/venv/bin/python -c "import jax, brax, mujoco, numpy; print(jax.__version__, brax.__version__)"',
    'hooks': {'guard': 'BRAX_VERIF', 'enable': 'no source hooks exist: every seam (PRNG keys, module attribute acting.time, XLA_FLAGS, PYTHONPATH=<repo>) is reachable from outside; checks run the working tree via PYTHONPATH',
              'baseline_off_cmd': 'cd /repo && /venv/bin/python -m pytest -ra -q -p no:cacheprovider --timeout=900 --continue-on-collection-errors',
              'source_commits': [], 'add_only': True},
    'engines': [{'name': e, 'path': f'/verif/sim/engines/{e}.py', 'serves_properties': sorted(ps),
                 'kind_free_text': 'seeded deterministic simulation engine (own PRNG, genome = replay file, ddmin shrinker)'} for e, ps in sorted(engines.items())],
    'checks': checks,
    'not_applicable': na,
    'notes': 'Driver ./check <ID> <tier> [--replay F] [--repo P]; exit 0 clean, 1 VIOLATION, 2 harness failure. See DESIGN.md.',
  }
  json.dump(m, open(os.path.join(V, 'MANIFEST.json'), 'w'), indent=1)
  import jsonschema
  jsonschema.validate(m, json.load(open('/root/.vp/MANIFEST.schema.json')))
  print('MANIFEST ok:', [c['property_id'] for c in checks])

main()
