#!/venv/bin/python
"""Determinism campaign (DESIGN.md section 8): for each check, execute the
first N runs of the quick tier twice -- 16 workers / PYTHONHASHSEED 0 and
5 workers / PYTHONHASHSEED 123 (fresh interpreters, different chunk layout) --
and compare genome hashes, input digests and output digests run by run.

usage: tools/determinism.py [--props C17,C15] [--runs 200]
Writes tools/determinism_RESULTS.json; exit 0 iff no mismatch.
"""
import argparse, json, os, subprocess, sys, time
V = os.path.dirname(os.path.dirname(os.path.abspath(__file__)))

def main():
  ap = argparse.ArgumentParser()
  ap.add_argument('--props', default='C17,C15,C18,C16,C04,C06,C07')
  ap.add_argument('--runs', type=int, default=200)
  ap.add_argument('--tier', default='quick')
  a = ap.parse_args()
  res = os.path.join(V, 'tools', 'determinism_RESULTS.json')
  out = json.load(open(res)) if os.path.exists(res) else {}
  bad = 0
  for p in a.props.split(','):
    digs = []
    for (w, hs) in ((16, 0), (5, 123)):
      f = f'/var/tmp/det-{p}-{w}.json'
      cmd = [os.path.join(V, 'check'), p, a.tier, '--runs', str(a.runs),
             '--workers', str(w), '--hashseed', str(hs), '--no-det',
             '--no-shrink', '--no-evidence', '--digests', f]
      t0 = time.time()
      r = subprocess.run(cmd, capture_output=True, text=True)
      d = json.load(open(f)) if os.path.exists(f) else {}
      if os.path.exists(f):
        os.remove(f)
      digs.append(d)
      print(p, 'workers', w, 'hashseed', hs, 'rc', r.returncode, 'runs', len(d),
            f'{time.time()-t0:.0f}s', flush=True)
    mism = [k for k in digs[0] if digs[0].get(k) != digs[1].get(k)]
    missing = [k for k in digs[0] if k not in digs[1]]
    out[p] = {'runs': len(digs[0]), 'mismatches': mism, 'missing': missing}
    bad += len(mism) + len(missing)
    print(p, 'pairs', len(digs[0]), 'mismatches', len(mism), flush=True)
  json.dump(out, open(os.path.join(V, 'tools', 'determinism_RESULTS.json'), 'w'), indent=1)
  return 1 if bad else 0

if __name__ == '__main__':
  sys.exit(main())
