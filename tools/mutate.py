#!/venv/bin/python
"""Sensitivity campaign: apply single-site mutants to a scratch copy of
/repo/brax (under /var/tmp, removed afterwards) and run the relevant check
against it with --repo. A mutant is killed if the check exits 1.

usage: tools/mutate.py [--prop C17] [--id m1,m2] [--tier quick] [--runs N]
Results are appended to tools/mutants/RESULTS.jsonl and summarised in
tools/mutants/RESULTS.md.
"""
import argparse
import importlib.util
import json
import os
import shutil
import subprocess
import sys
import time

VERIF = os.path.dirname(os.path.dirname(os.path.abspath(__file__)))


def load_mutants():
  spec = importlib.util.spec_from_file_location(
      'mutlist', os.path.join(VERIF, 'tools', 'mutants', 'list.py'))
  m = importlib.util.module_from_spec(spec)
  spec.loader.exec_module(m)
  return m.MUTANTS


def main():
  ap = argparse.ArgumentParser()
  ap.add_argument('--prop', default='')
  ap.add_argument('--id', default='')
  ap.add_argument('--tier', default='quick')
  ap.add_argument('--runs', type=int, default=0)
  ap.add_argument('--workers', type=int, default=16)
  ap.add_argument('--src', default='/repo')
  ap.add_argument('--shrink', action='store_true')
  a = ap.parse_args()
  muts = load_mutants()
  if a.prop:
    muts = [m for m in muts if a.prop in m['props']]
  if a.id:
    ids = a.id.split(',')
    muts = [m for m in muts if m['id'] in ids]
  out = open(os.path.join(VERIF, 'tools', 'mutants', 'RESULTS.jsonl'), 'a')
  for m in muts:
    scratch = f"/var/tmp/brax-mut-{os.getpid()}-{m['id']}"
    shutil.rmtree(scratch, ignore_errors=True)
    os.makedirs(scratch)
    try:
      shutil.copytree(os.path.join(a.src, 'brax'), os.path.join(scratch, 'brax'),
                      ignore=shutil.ignore_patterns('__pycache__', 'experimental'))
      for (rel, old, new) in m['edits']:
        p = os.path.join(scratch, rel)
        s = open(p).read()
        if s.count(old) != 1:
          raise SystemExit(f"mutant {m['id']}: pattern occurs {s.count(old)} "
                           f"times in {rel}")
        open(p, 'w').write(s.replace(old, new))
      for prop in m['props']:
        if a.prop and prop != a.prop:
          continue
        cmd = [os.path.join(VERIF, 'check'), prop, a.tier, '--repo', scratch,
               '--no-evidence', '--workers', str(a.workers)]
        if prop != 'C16':   # for C16 cross-process determinism is the property
          cmd += ['--no-det']
        runs = a.runs or m.get('runs', 0)
        if runs:
          cmd += ['--runs', str(runs)]
        if not a.shrink:
          cmd += ['--no-shrink']
        t0 = time.time()
        p = subprocess.run(cmd, capture_output=True, text=True)
        lines = [l for l in p.stdout.splitlines()
                 if l.startswith(('VIOLATION', 'violation', 'HARNESS'))]
        rec = {'id': m['id'], 'prop': prop, 'what': m['what'], 'rc': p.returncode,
               'killed': p.returncode == 1, 'wall': round(time.time() - t0, 1),
               'first': lines[0][:400] if lines else ''}
        out.write(json.dumps(rec) + '\n')
        out.flush()
        print(json.dumps(rec))
        os.makedirs('/var/tmp/mutlogs', exist_ok=True)
        open(f"/var/tmp/mutlogs/{m['id']}-{prop}.log", 'w').write(p.stdout[-20000:])
        if p.returncode == 2:
          print(p.stdout[-1500:])
    finally:
      shutil.rmtree(scratch, ignore_errors=True)


if __name__ == '__main__':
  main()
