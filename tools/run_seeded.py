#!/venv/bin/python
"""Runs each check against each seeded change the way the brief prescribes:
git -C /repo apply <patch>; ./check <ID> quick; git -C /repo checkout -- .
Writes seeded/RESULTS.json. Refuses to start if /repo has local changes."""
import json, os, subprocess, sys, time
V = os.path.dirname(os.path.dirname(os.path.abspath(__file__)))

def sh(*a, **k):
  return subprocess.run(a, capture_output=True, text=True, **k)

def main():
  only = sys.argv[1].split(',') if len(sys.argv) > 1 else None
  if sh('git', '-C', '/repo', 'status', '--porcelain', '--untracked-files=no').stdout.strip():
    print('refusing: /repo has local changes'); return 2
  out = {}
  res_path = os.path.join(V, 'seeded', 'RESULTS.json')
  if os.path.exists(res_path):
    out = json.load(open(res_path))
  for sid in sorted(os.listdir(os.path.join(V, 'seeded'))):
    d = os.path.join(V, 'seeded', sid)
    if not os.path.isdir(d) or (only and sid not in only):
      continue
    meta = json.load(open(os.path.join(d, 'meta.json')))
    prop = meta['property']
    patch = os.path.join(d, 'patch.diff')
    r = sh('git', '-C', '/repo', 'apply', patch)
    if r.returncode:
      out[sid] = {'error': 'patch does not apply: ' + r.stderr[:200]}
      continue
    try:
      t0 = time.time()
      c = sh(os.path.join(V, 'check'), prop, 'quick', '--no-evidence', '--no-shrink',
             *([] if prop == 'C16' else ['--no-det']), cwd=V)
      lines = [l for l in c.stdout.splitlines() if l.startswith(('violation', 'VIOLATION'))]
      out[sid] = {'property': prop, 'rc': c.returncode, 'detected': c.returncode == 1,
                  'first': lines[0][:300] if lines else '', 'wall_s': round(time.time() - t0)}
      print(sid, out[sid], flush=True)
    finally:
      sh('git', '-C', '/repo', 'checkout', '--', '.')
    json.dump(out, open(res_path, 'w'), indent=1)
  return 0

if __name__ == '__main__':
  sys.exit(main())
