import os, sys, time, random
os.environ['XLA_FLAGS']='--xla_force_host_platform_device_count=4 --xla_cpu_multi_thread_eigen=false intra_op_parallelism_threads=1'
import jax
X64 = sys.argv[3]=='64'
jax.config.update('jax_enable_x64', X64)
import jax.numpy as jnp, numpy as np
from brax.training.acme import running_statistics as rs
def run(seed):
    r = np.random.default_rng(seed)
    F = int(r.integers(1,7)); n = int(r.integers(2,201)); nb = int(r.integers(1,9))
    scale = 10**r.uniform(-3,3); off = scale*r.uniform(-3,3,F)
    data = off + scale*r.normal(size=(n,F))
    if r.random()<0.3: data[:, int(r.integers(F))] = off[0]   # constant column
    dt = np.float64 if X64 else np.float32
    data = data.astype(dt)
    cuts = np.sort(r.choice(np.arange(1,n), size=min(nb-1,n-1), replace=False)) if nb>1 else []
    batches = np.split(data, cuts)
    use_w = r.random()<0.5
    struct = r.choice(['arr','dict'])
    def pack(x):
        return x if struct=='arr' else {'a': x[...,:1], 'b': x[...,1:]} if F>1 else {'a': x}
    st = rs.init_state(pack(jnp.zeros((F,), dt)))
    seen=[]; seenw=[]
    worst=0
    smin = 1e-6; smax=1e6
    for bi,b in enumerate(batches):
        w = r.integers(0,5,size=len(b)).astype(dt) if use_w else None
        if use_w and bi==0 and w.sum()==0: w[0]=1
        bb=b; ww=w
        if len(b)%2==0 and r.random()<0.5:
            bb = b.reshape(2,-1,F); ww = None if w is None else w.reshape(2,-1)
        st = rs.update(st, pack(jnp.array(bb)), weights=None if ww is None else jnp.array(ww), std_min_value=smin, std_max_value=smax)
        seen.append(b.astype(np.float64)); seenw.append(np.ones(len(b)) if w is None else w.astype(np.float64))
        X=np.concatenate(seen); W=np.concatenate(seenw)
        mean = (W[:,None]*X).sum(0)/W.sum(); var = (W[:,None]*(X-mean)**2).sum(0)/W.sum(); std=np.clip(np.sqrt(var),smin,smax)
        gm = np.concatenate([np.array(x).ravel() for x in jax.tree.leaves(st.mean)]); gs = np.concatenate([np.array(x).ravel() for x in jax.tree.leaves(st.std)])
        if struct=='dict' and F>1: pass
        ref = scale+np.abs(off).max()
        worst = max(worst, np.abs(gm-mean).max()/ref, np.abs(gs-std).max()/ref)
        assert float(st.count)==W.sum()
    return worst
t=time.time(); w=0
for seed in range(int(sys.argv[1]), int(sys.argv[2])):
    w=max(w,run(seed))
print('x64' if X64 else 'f32', 'worst rel err', w, 'wall', time.time()-t)
