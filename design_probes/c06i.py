import os, sys, time
os.environ.setdefault('XLA_FLAGS','--xla_cpu_multi_thread_eigen=false intra_op_parallelism_threads=1')
import jax
jax.config.update('jax_enable_x64', True)
import jax.numpy as jp, numpy as np
from brax.io import mjcf
from brax import contact
from brax.spring import pipeline as sp
from brax.positional import pipeline as pp
from brax.generalized import pipeline as gp
import gen
seed0, n, mode = int(sys.argv[1]), int(sys.argv[2]), sys.argv[3]
for seed in range(seed0, seed0+n):
  rng = np.random.default_rng(2000+seed)
  if mode=='contact':
    m = gen.gen_model(rng, roots='mixed', collide=True, plane=True, gravity=np.array([0,0,-9.81]))
    sA = mjcf.loads(gen.to_xml(m)); sB = mjcf.loads(gen.to_xml(m, collide_override=False))
  else:
    m = gen.gen_model(rng, roots='mixed', collide=False, plane=False)
    sA = mjcf.loads(gen.to_xml(m)); sB = mjcf.loads(gen.to_xml(m, strip_limits=True))
    if sA.dof.limit is None: 
      print(seed, 'nolimits skip'); continue
  s=sA
  q0 = np.array(s.init_q)
  lim = s.dof.limit
  qi = [int(i) for i in (s.q_idx('123') if any(t in '123' for t in s.link_types) else [])]
  di = [int(i) for i in (s.qd_idx('123') if any(t in '123' for t in s.link_types) else [])]
  for qq,dd in zip(qi,di):
    lo = -0.5 if lim is None else max(-0.5, float(lim[0][dd])*0.8); hi = 0.5 if lim is None else min(0.5, float(lim[1][dd])*0.8)
    q0[qq] = rng.uniform(lo, hi)
  qd0 = rng.uniform(-0.3,0.3,s.qd_size())
  T=5
  ctrl = rng.uniform(-1,1,(T,s.act_size()))
  for name,P in [('generalized',gp),('spring',sp),('positional',pp)]:
    def run(sys_):
      st = P.init(sys_, jp.array(q0), jp.array(qd0))
      def body(st,c):
        ns = P.step(sys_, st, c)
        cc = contact.get(sys_, ns.x)
        md = jp.min(cc.dist) if cc is not None else jp.inf
        return ns,(ns.q,ns.qd,ns.x.pos,ns.x.rot,md)
      return jax.lax.scan(body, st, jp.array(ctrl))[1]
    try:
      a = jax.jit(lambda: run(sA))(); b = jax.jit(lambda: run(sB))()
    except Exception as ex:
      print(seed, s.link_types, name, 'EXC', type(ex).__name__, str(ex)[:150]); continue
    mind = float(np.min(np.array(a[4])))
    diffs = [float(np.max(np.abs(np.array(x)-np.array(y)))) if np.array(x).size else 0.0 for x,y in zip(a[:4],b[:4])]
    rotA = float(np.abs(np.linalg.norm(np.array(a[3]),axis=-1)-1).max()); rotB=float(np.abs(np.linalg.norm(np.array(b[3]),axis=-1)-1).max())
    inside = True
    if mode!='contact' and lim is not None:
      qs = np.array(a[0])[:, qi]; inside = bool(np.all(qs > np.array(lim[0])[di]) and np.all(qs < np.array(lim[1])[di]))
    print(seed, s.link_types, name, f'mindist={mind:.3f} inside={inside} dq={diffs[0]:.1e} dqd={diffs[1]:.1e} dpos={diffs[2]:.1e} drot={diffs[3]:.1e} rotdevA={rotA:.1e} rotdevB={rotB:.1e}', flush=True)
