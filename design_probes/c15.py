import os, sys, types, time, random
os.environ.setdefault('XLA_FLAGS','--xla_cpu_multi_thread_eigen=false intra_op_parallelism_threads=1')
import jax, jax.numpy as jp, numpy as np
from brax import envs
from brax.envs.base import Env, State
from brax.envs.wrappers import training
class ScriptEnv(Env):
    """action = [terminate(>0.5), reward]; sticky death; state counts local time."""
    def reset(self, rng):
        mid = rng[-1].astype(jp.float32)
        ps = {'t': jp.zeros((), jp.int32), 'dead': jp.zeros(()), 'id': mid, 'mat': jp.zeros((2,2))}
        obs = {'v': jp.stack([mid, 0.0, 0.0]), 'm': jp.zeros((2,2))}
        z = jp.zeros(())
        return State(ps, obs, z, z, {'m': z})
    def step(self, state, action):
        ps = state.pipeline_state
        t = ps['t'] + 1
        dead = jp.maximum(ps['dead'], (action[0] > 0.5).astype(jp.float32))
        rew = action[1] + 0.125 * t
        mat = ps['mat'] + rew
        obs = {'v': jp.stack([ps['id'], t.astype(jp.float32), dead]), 'm': mat}
        return state.replace(pipeline_state={'t': t, 'dead': dead, 'id': ps['id'], 'mat': mat}, obs=obs, reward=rew, done=dead, metrics={**state.metrics, 'm': rew*2})
    @property
    def observation_size(self): return 3
    @property
    def action_size(self): return 2
    @property
    def backend(self): return 'script'
envs.register_environment('script', ScriptEnv)
def run(seed):
    r = random.Random(seed)
    L=r.randint(1,6); R=r.randint(1,3); B=r.randint(1,5); T=r.randint(3, 3*L+3)
    order = r.choice(['wrap','create'])
    evalw = r.random()<0.5
    if order=='wrap': env = training.wrap(ScriptEnv(), episode_length=L, action_repeat=R)
    else: env = envs.create('script', episode_length=L, action_repeat=R, auto_reset=True, batch_size=B)
    if evalw: env = training.EvalWrapper(env)
    keys = jp.stack([jp.array([seed, 10+i], jp.uint32) for i in range(B)])
    if order=='create':
        # VmapWrapper with batch_size splits a single key
        key = jax.random.PRNGKey(seed); state = jax.jit(env.reset)(key)
        ids = np.array(state.pipeline_state['id'])
    else:
        state = jax.jit(env.reset)(keys); ids = np.array([10.+i for i in range(B)])
    step = jax.jit(env.step)
    assert np.all(np.array(state.done)==0)
    # model
    M = [dict(t=0, dead=0.0, mat=0.0, steps=0, prev_done=False, ep_ret=0.0, ep_m=0.0, active=True, ep_steps=0) for _ in range(B)]
    pterm = r.choice([0.05,0.2,0.5])
    for k in range(T):
        act = np.array([[1.0 if r.random()<pterm else 0.0, float(r.randint(-3,3))] for _ in range(B)])
        state = step(state, jp.array(act))
        for b in range(B):
            m = M[b]
            if m['prev_done']: m['steps']=0
            rew=0.0
            for _ in range(R):
                m['t']+=1; m['dead']=max(m['dead'], act[b,0]); rr = act[b,1]+0.125*m['t']; rew+=rr; m['mat']+=rr; lastr=rr
            m['steps']+=R
            inner = m['dead']; timeout = m['steps']>=L
            done = 1.0 if timeout else inner; trunc = (1-inner) if timeout else 0.0
            assert float(state.reward[b])==rew, (seed,k,b,'reward',float(state.reward[b]),rew)
            assert float(state.done[b])==done, (seed,k,b,'done')
            assert float(state.info['truncation'][b])==trunc, (seed,k,b,'trunc')
            assert float(state.info['steps'][b])==m['steps'], (seed,k,b,'steps')
            if evalw:
                em = state.info['eval_metrics']
                if m['active']:
                    m['ep_ret']+=rew; m['ep_m']+=2*lastr; m['ep_steps']=m['steps']
                    if done: m['active']=False
                assert float(em.episode_metrics['reward'][b])==m['ep_ret'], (seed,k,b,'evalret', float(em.episode_metrics['reward'][b]), m['ep_ret'])
                assert float(em.episode_metrics['m'][b])==m['ep_m'], (seed,k,b,'evalm')
                assert float(em.active_episodes[b])==float(m['active']), (seed,k,b,'active')
                assert float(em.episode_steps[b])==m['ep_steps'], (seed,k,b,'epsteps')
            if done:
                m['t']=0; m['dead']=0.0; m['mat']=0.0
            m['prev_done']=bool(done)
            assert int(state.pipeline_state['t'][b])==m['t'], (seed,k,b,'t')
            assert float(state.obs['v'][b,1])==m['t'] and float(state.obs['v'][b,2])==m['dead'], (seed,k,b,'obs')
            assert float(state.obs['v'][b,0])==ids[b]
            assert np.all(np.array(state.obs['m'][b])==m['mat']) and np.all(np.array(state.pipeline_state['mat'][b])==m['mat']), (seed,k,b,'mat')
    return T*B
t=time.time(); n=0
for seed in range(int(sys.argv[1]), int(sys.argv[2])):
    n+=run(seed)
print('ok member-steps', n, 'wall', time.time()-t)
