import os, sys, time
os.environ.setdefault('XLA_FLAGS','--xla_cpu_multi_thread_eigen=false intra_op_parallelism_threads=1')
import jax, jax.numpy as jp, numpy as np
from brax import envs
from brax.envs.wrappers import training
name, backend = sys.argv[1], sys.argv[2]
B,T=4,40
env = envs.get_environment(name, backend=backend)
wenv = training.wrap(env, episode_length=15, action_repeat=1)
keys = jax.random.split(jax.random.PRNGKey(1), B)
acts = jax.random.uniform(jax.random.PRNGKey(2), (T,B,env.action_size), minval=-1, maxval=1)
def roll(keys, acts):
    st = wenv.reset(keys)
    def body(st,a):
        ns = wenv.step(st,a); return ns,(ns.obs,ns.reward,ns.done,ns.info['truncation'],ns.info['steps'])
    return jax.lax.scan(body, st, acts)[1]
f = jax.jit(roll)
a = f(keys, acts)
keys2 = keys.at[1:].set(jax.random.split(jax.random.PRNGKey(99), B-1))
acts2 = acts.at[:,1].set(jp.nan).at[:,2].set(1e6).at[:,3].set(-acts[:,3])
b = f(keys2, acts2)
same = all(np.array_equal(np.array(x)[:,0], np.array(y)[:,0], equal_nan=True) for x,y in zip(a,b))
print(name, backend, 'victim bitwise identical under poisoned neighbours:', same, 'victim dones', float(np.array(a[2])[:,0].sum()), 'neighbour nan obs', bool(np.isnan(np.array(b[0])[:,1]).any()))
