import os, sys, time
os.environ.setdefault('XLA_FLAGS','--xla_cpu_multi_thread_eigen=false intra_op_parallelism_threads=1')
import jax
jax.config.update('jax_enable_x64', True)
import jax.numpy as jp, numpy as np
from brax.io import mjcf
from brax.spring import pipeline as sp
from brax.positional import pipeline as pp
from brax.generalized import pipeline as gp
def scene(geom, dt, elast=0.0):
    return f"""<mujoco><option timestep="{dt}"/><custom><numeric data="{elast}" name="elasticity"/></custom>
 <worldbody><geom name="floor" type="plane" size="5 5 0.1"/>
  <body name="a" pos="0 0 1"><freejoint/>{geom}</body></worldbody></mujoco>"""
seed0,n,mode = int(sys.argv[1]), int(sys.argv[2]), sys.argv[3]
for seed in range(seed0, seed0+n):
  rng = np.random.default_rng(5000+seed)
  shape = rng.choice(['sphere','box','capsule'])
  dens = rng.uniform(200,3000)
  if shape=='sphere':
    r = rng.uniform(0.05,0.3); g=f'<geom type="sphere" size="{r}" density="{dens}"/>'; h=r
  elif shape=='box':
    sx,sy,sz = rng.uniform(0.05,0.3,3); g=f'<geom type="box" size="{sx} {sy} {sz}" density="{dens}"/>'; h=sz
  else:
    r = rng.uniform(0.05,0.15); hl=rng.uniform(0.05,0.3); g=f'<geom type="capsule" size="{r} {hl}" density="{dens}" quat="0.7071067811865476 0 0.7071067811865476 0"/>'; h=r
  if mode=='rest':
    dt = float(rng.choice([0.001,0.002,0.004])); drop = rng.uniform(0,0.5)
    for pname,P in [('generalized',gp),('spring',sp),('positional',pp)]:
      s = mjcf.loads(scene(g,dt)); q=np.array(s.init_q); q[2]=h+drop
      T=int(3.0/dt)
      def body(st,_):
        ns=P.step(s,st,jp.zeros(0)); return ns,(ns.x.pos[0,2],ns.xd.vel[0,2])
      st0=P.init(s,jp.array(q),jp.zeros(6))
      _,(z,vz)=jax.jit(lambda st: jax.lax.scan(body,st,None,length=T))(st0)
      z=np.array(z); vz=np.array(vz); tail=int(0.5/dt)
      print(f"rest {seed} {shape:7s} {pname:11s} dt={dt} h={h:.3f} dens={dens:.0f} drop={drop:.2f} sink={h-z.min():.4f} restdev={np.abs(z[-tail:]-h).max():.5f} vzend={np.abs(vz[-tail:]).max():.2e}", flush=True)
  elif mode=='push':
    dt = float(rng.choice([0.001,0.002,0.004])); depth = rng.uniform(0.002,0.02); grav = rng.random()<0.5
    quat = rng.normal(size=4); quat/=np.linalg.norm(quat)
    for pname,P in [('generalized',gp),('spring',sp),('positional',pp)]:
      xml = scene(g,dt)
      if not grav: xml = xml.replace(f'timestep="{dt}"', f'timestep="{dt}" gravity="0 0 0"')
      s = mjcf.loads(xml); q=np.array(s.init_q); q[3:7]=quat
      # find lowest point by contact query
      from brax import kinematics, contact
      q[2]=5.0
      x,_ = kinematics.forward(s, jp.array(q), jp.zeros(6)); c=contact.get(s,x); dmin=float(jp.min(c.dist))
      q[2] = 5.0 - dmin - depth
      st0=P.init(s,jp.array(q),jp.zeros(6)); ns=jax.jit(P.step)(s,st0,jp.zeros(0))
      dz = float(ns.x.pos[0,2]-st0.x.pos[0,2]); vz=float(ns.xd.vel[0,2])
      gz = -9.81 if grav else 0.0
      print(f"push {seed} {shape:7s} {pname:11s} dt={dt} depth={depth:.4f} grav={grav} dz={dz:+.2e} vz={vz:+.3e} freefall_dz={gz*dt*dt:+.2e} freefall_vz={gz*dt:+.3e}", flush=True)
  elif mode=='bounce':
    r = rng.uniform(0.05,0.3); e=rng.uniform(0,0.9); drop=rng.uniform(0.2,1.0); g=f'<geom type="sphere" size="{r}" density="{dens}"/>'
    for pname,P in [('spring',sp),('positional',pp)]:
      s = mjcf.loads(scene(g,0.001,e)); q=np.array(s.init_q); q[2]=r+drop
      T=int((np.sqrt(2*drop/9.81)+0.15)/0.001)
      def body(st,_):
        ns=P.step(s,st,jp.zeros(0)); return ns,(ns.x.pos[0,2],ns.xd.vel[0,2])
      st0=P.init(s,jp.array(q),jp.zeros(6))
      _,(z,vz)=jax.jit(lambda st: jax.lax.scan(body,st,None,length=T))(st0)
      vz=np.array(vz); i=vz.argmin(); vin=-vz[i]; vout=vz[i:].max()
      print(f"bounce {seed} {pname:11s} r={r:.3f} e={e:.2f} drop={drop:.2f} dens={dens:.0f} vin={vin:.3f} ratio={vout/vin:.3f} ratio-e={vout/vin-e:+.3f}", flush=True)
