import os, sys, time
os.environ.setdefault('XLA_FLAGS','--xla_cpu_multi_thread_eigen=false intra_op_parallelism_threads=1')
import jax
jax.config.update('jax_enable_x64', True)
import jax.numpy as jp, numpy as np
from brax.io import mjcf
from brax.generalized import pipeline as gp
import gen
def flat(st):
    return np.concatenate([np.array(x).ravel() for x in (st.q, st.qd, st.x.pos, st.x.rot, st.xd.vel, st.xd.ang)])
seed=12
rng = np.random.default_rng(3000+seed)
m = gen.gen_model(rng, roots='mixed', collide=True, plane=True, gravity=np.array([0,0,-9.81]))
for l in m['links']:
    if l['parent']==-1: l['pos'][2] = rng.uniform(0.0,0.4)
s = mjcf.loads(gen.to_xml(m))
B=4
q0 = np.tile(np.array(s.init_q),(B,1))
qi = [int(i) for i in (s.q_idx('123') if any(t in '123' for t in s.link_types) else [])]
if qi: q0[:,qi] = rng.uniform(-0.5,0.5,(B,len(qi)))
qd0 = rng.uniform(-1,1,(B,s.qd_size()))
ctrl = rng.uniform(-1,1,(B,s.act_size()))
P=gp
def f(q,qd,c):
    st = P.init(s,q,qd); st1 = P.step(s,st,c); st2 = P.step(s,st1,c); return st2
fj = jax.jit(f); i=1
base = flat(fj(jp.array(q0[i]),jp.array(qd0[i]),jp.array(ctrl[i])))
prng = np.random.default_rng(1)
for mag in [1e-15,1e-14,1e-13,1e-12,1e-11,1e-10,1e-9]:
    ds=[]
    for k in range(8):
        dq = qd0[i]*(1+mag*prng.normal(size=qd0[i].shape))
        ds.append(np.max(np.abs(flat(fj(jp.array(q0[i]),jp.array(dq),jp.array(ctrl[i])))-base)))
    print(mag, ' '.join(f'{d:.1e}' for d in ds))
