import time, sys, traceback
import jax, jax.numpy as jp
from brax import envs
names = [n for n in envs._envs if n != 'fast']
backend = sys.argv[1]
for n in names:
    t=time.time()
    try:
        env = envs.get_environment(n, backend=backend)
        s = jax.jit(env.reset)(jax.random.PRNGKey(0))
        t1=time.time()-t
        t=time.time()
        step = jax.jit(env.step)
        s2 = step(s, jp.zeros(env.action_size))
        jax.block_until_ready(s2.obs)
        t2=time.time()-t
        t=time.time()
        for _ in range(20):
            s2 = step(s2, jp.ones(env.action_size))
        jax.block_until_ready(s2.obs)
        t3=(time.time()-t)/20
        print(f"{backend:12s} {n:26s} OK obs={s.obs.shape} act={env.action_size} reset={t1:.1f}s stepjit={t2:.1f}s step={t3*1e3:.1f}ms n_frames={env._n_frames} dt={env.sys.opt.timestep} finite={bool(jp.all(jp.isfinite(s2.obs)))}", flush=True)
    except Exception as e:
        print(f"{backend:12s} {n:26s} FAIL {type(e).__name__}: {str(e)[:300]}", flush=True)
