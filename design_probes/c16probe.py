import os, sys, time
os.environ.setdefault('XLA_FLAGS','--xla_cpu_multi_thread_eigen=false intra_op_parallelism_threads=1')
import jax, jax.numpy as jp, numpy as np
from brax import envs
from brax.envs.wrappers import training
name, backend, B, T, mode, seed = sys.argv[1], sys.argv[2], int(sys.argv[3]), int(sys.argv[4]), sys.argv[5], int(sys.argv[6])
env = envs.get_environment(name, backend=backend)
wenv = training.wrap(env, episode_length=1000, action_repeat=1)
key = jax.random.PRNGKey(seed)
kr, ka = jax.random.split(key)
t0=time.time()
state = jax.jit(wenv.reset)(jax.random.split(kr, B))
A = env.action_size
def gen_actions(k, T):
    if mode=='uniform':
        return jax.random.uniform(k,(T,B,A),minval=-1,maxval=1)
    elif mode=='bang':
        return jp.sign(jax.random.uniform(k,(T,B,A),minval=-1,maxval=1))
    elif mode=='hold':  # bang-bang held for random durations
        k1,k2=jax.random.split(k)
        s = jp.sign(jax.random.uniform(k1,(T//20+1,B,A),minval=-1,maxval=1))
        return jp.repeat(s,20,axis=0)[:T]
def body(st, a):
    ns = wenv.step(st, a)
    ps = ns.pipeline_state
    fin = jp.all(jp.isfinite(ns.obs),axis=-1)&jp.isfinite(ns.reward)&jp.all(jp.isfinite(ps.q),axis=-1)&jp.all(jp.isfinite(ps.qd),axis=-1)&jp.isfinite(ns.done)
    rn = jp.max(jp.abs(jp.linalg.norm(ps.x.rot,axis=-1)-1),axis=-1)
    return ns, (fin, rn, ns.done, ns.info['truncation'], jp.max(jp.abs(ps.qd),axis=-1))
run = jax.jit(lambda st, acts: jax.lax.scan(body, st, acts))
acts = gen_actions(ka, T)
state, (fin, rn, done, trunc, qdmax) = run(state, acts)
fin=np.array(fin); rn=np.array(rn)
bad = np.argwhere(~fin)
print(f"{name:26s} {backend:11s} B={B} T={T} {mode:7s} seed={seed} finite_all={fin.all()} first_bad={(bad[0].tolist() if len(bad) else None)} nbad_members={int((~fin).any(0).sum())} rotdev_max={np.nanmax(rn):.2e} dones={int(np.array(done).sum())} trunc={int(np.array(trunc).sum())} qdmax={np.nanmax(np.array(qdmax)):.3g} wall={time.time()-t0:.1f}s", flush=True)
