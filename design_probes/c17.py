import os, sys, time, random
os.environ['XLA_FLAGS']='--xla_force_host_platform_device_count=4 --xla_cpu_multi_thread_eigen=false intra_op_parallelism_threads=1'
import jax, jax.numpy as jnp, numpy as np
from brax.training import replay_buffers as rb
class Model:
    def __init__(s, cap, B, cyclic, uniform=False):
        s.cap, s.B, s.cyclic, s.uniform = cap, B, cyclic, uniform; s.held=[]; s.cur=0
    def insert(s, recs):
        s.held += recs
        over = max(0, len(s.held)-s.cap)
        s.held = s.held[over:]; s.cur = max(0, s.cur-over)
    def avail(s): return len(s.held) if (s.cyclic or s.uniform) else len(s.held)-s.cur
    def can_sample(s): return s.avail() >= s.B
    def sample(s):
        if s.cyclic:
            out=[s.held[(s.cur+i)%len(s.held)] for i in range(s.B)]; s.cur=(s.cur+s.B)%len(s.held)
        else:
            out=s.held[s.cur:s.cur+s.B]; s.cur+=s.B
        return out
def run(seed):
    r = random.Random(seed)
    cap=r.randint(1,5); B=r.randint(1,4); cyclic=r.random()<0.5
    kind = r.choice(['plain','plain','pmap','pjit'])
    D = 1 if kind=='plain' else r.choice([2,4]) if kind=='pmap' else 2
    base = rb.Queue(cap, jnp.zeros((2,), jnp.int32), B, cyclic=cyclic)
    if kind=='pmap': q = rb.PmapWrapper(base, local_device_count=D)
    elif kind=='pjit':
        mesh = jax.sharding.Mesh(np.array(jax.devices()).reshape(2,2), ('x','y')); q = rb.PjitWrapper(base, mesh=mesh, axis_names=('x',))
    else: q = base
    st = q.init(jax.random.PRNGKey(seed))
    models=[Model(cap,B,cyclic) for _ in range(D)]
    serial=1; log=[]
    for step in range(r.randint(1,14)):
        if r.random()<0.55:
            k = r.randint(1,cap+1)
            recs=[serial+i for i in range(k*D)]; 
            arr = jnp.array([[x, -x] for x in recs], jnp.int32)
            try:
                st2 = q.insert(st, arr); ok=True
            except ValueError: ok=False
            log.append(('ins',k,ok))
            if k>cap:
                assert not ok, (seed, log, 'oversize accepted')
            else:
                assert ok, (seed, log)
                st=st2; serial+=k*D
                for d in range(D): models[d].insert(recs[d::D])
        else:
            exp_ok = models[0].can_sample()
            try:
                st2, out = q.sample(st); ok=True
            except ValueError: ok=False
            log.append(('smp',ok))
            assert ok==exp_ok, (seed, log, 'refusal mismatch', exp_ok)
            if ok:
                st=st2
                exp = [None]*(B*D)
                for d in range(D):
                    o = models[d].sample()
                    for i,x in enumerate(o): exp[i*D+d]=x
                got = np.array(out)
                assert got[:,0].tolist()==exp and (got[:,1]==-got[:,0]).all(), (seed, log, got[:,0].tolist(), exp)
        sz = int(q.size(st)); assert sz == sum(m.avail() for m in models), (seed, log, sz, [m.avail() for m in models])
    return len(log)
t=time.time(); n=0
for seed in range(int(sys.argv[1]), int(sys.argv[2])):
    n+=run(seed)
print('ok', n, 'ops', time.time()-t)
