import os, sys, types, hashlib
os.environ.setdefault('XLA_FLAGS','--xla_cpu_multi_thread_eigen=false intra_op_parallelism_threads=1')
import jax, jax.numpy as jp, numpy as np
# stub brax.v1 so acting imports
try:
    import brax.training.acting as acting
    print('acting imported natively')
except AttributeError as e:
    for m in [k for k in sys.modules if k.startswith('brax.v1') or k=='brax.training.acting']: del sys.modules[m]
    v1 = types.ModuleType('brax.v1'); v1e = types.ModuleType('brax.v1.envs')
    class _S: pass
    v1e.State=_S; v1e.Env=_S; v1e.Wrapper=_S; v1.envs=v1e
    sys.modules['brax.v1']=v1; sys.modules['brax.v1.envs']=v1e
    import brax.training.acting as acting
    print('acting imported with v1 stub')
from brax.envs.base import Env, State
from brax.envs.wrappers import training
class ScriptEnv(Env):
    def reset(self, rng):
        mid = jax.random.key_data(rng)[-1].astype(jp.float32) if jp.issubdtype(rng.dtype, jax.dtypes.prng_key) else rng[-1].astype(jp.float32)
        ps = {'t': jp.zeros((), jp.int32), 'dead': jp.zeros((), jp.float32), 'id': mid}
        obs = jp.stack([mid, 0.0, 0.0])
        z = jp.zeros(())
        return State(ps, obs, z, z, {'m': z})
    def step(self, state, action):
        ps = state.pipeline_state
        t = ps['t'] + 1
        dead = jp.maximum(ps['dead'], (action[0] > 0.5).astype(jp.float32))
        rew = action[1] + 0.125 * t
        obs = jp.stack([ps['id'], t.astype(jp.float32), dead])
        return state.replace(pipeline_state={'t': t, 'dead': dead, 'id': ps['id']}, obs=obs, reward=rew, done=dead, metrics={**state.metrics, 'm': rew*2})
    @property
    def observation_size(self): return 3
    @property
    def action_size(self): return 2
    @property
    def backend(self): return 'script'
env = training.wrap(ScriptEnv(), episode_length=5, action_repeat=2)
keys = jp.stack([jp.array([0, i], jp.uint32) for i in range(3)])
s = env.reset(keys)
step = jax.jit(env.step)
for k in range(6):
    a = jp.array([[0,1.],[1. if k==1 else 0,1.],[0,1.]])
    s = step(s, a)
    print(k, 'done', np.array(s.done), 'trunc', np.array(s.info['truncation']), 'steps', np.array(s.info['steps']), 'rew', np.array(s.reward), 'obs_t', np.array(s.obs[:,1]), 't', np.array(s.pipeline_state['t']))
# evaluator with fake clock
class Clock:
    def __init__(self): self.t=100.0
    def time(self): self.t+=0.25; return self.t
acting.time = Clock()
def policy_fn(params):
    def policy(obs, key):
        term = (obs[...,1] >= params).astype(jp.float32)
        return jp.stack([term, jp.ones_like(term)], -1), {}
    return policy
ev = acting.Evaluator(env, policy_fn, num_eval_envs=3, episode_length=6, action_repeat=2, key=jax.random.PRNGKey(0))
print(ev.run_evaluation(jp.array(2.0), {}))
