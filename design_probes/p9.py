import os, sys, time
os.environ.setdefault('XLA_FLAGS','--xla_cpu_multi_thread_eigen=false intra_op_parallelism_threads=1')
import jax
jax.config.update('jax_enable_x64', True)
import jax.numpy as jp, numpy as np
from brax.io import mjcf
from brax.spring import pipeline as sp
from brax.positional import pipeline as pp
from brax.generalized import pipeline as gp
def xml(a, b, m):
    return f"""
<mujoco>
 <option timestep="0.002"/>
 <worldbody>
  <geom name="floor" type="plane" size="5 5 0.1"/>
  <body name="a" pos="0 0 1" quat="0.9 0.1 0.3 0.2">
   <freejoint/>
   <geom type="capsule" size="0.05 {a}" pos="0.1 0 0"/>
   <body name="b" pos="{b} 0.1 0" quat="0.7 0.2 -0.3 0.1">
     <joint name="j1" type="hinge" axis="0 1 0" range="-1 1" limited="true"/>
     <geom type="sphere" size="0.05" pos="0.1 0.05 0" density="{m}"/>
   </body>
  </body>
 </worldbody>
 <actuator><motor joint="j1" gear="20"/></actuator>
</mujoco>"""
for P,name in [(sp,'spring'),(pp,'positional'),(gp,'generalized')]:
  init = jax.jit(P.init); step = jax.jit(P.step)
  for i,(a,b,m) in enumerate([(0.2,0.3,1000),(0.25,0.35,500),(0.21,0.1,700)]):
    s = mjcf.loads(xml(a,b,m))
    t=time.time()
    st = init(s, s.init_q, jp.zeros(s.qd_size()))
    st = step(s, st, jp.ones(1)); jax.block_until_ready(st.q)
    t1=time.time()-t
    s2 = s.replace(mj_model=None)
    t=time.time()
    st = init(s2, s2.init_q, jp.zeros(s2.qd_size()))
    st = step(s2, st, jp.ones(1)); jax.block_until_ready(st.q)
    print(name, i, f'with mj_model {t1:.2f}s   without mj_model {time.time()-t:.2f}s')
