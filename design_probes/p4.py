import os
os.environ['XLA_FLAGS']='--xla_force_host_platform_device_count=4'
import jax, jax.numpy as jnp, numpy as np
from brax.training.acme import running_statistics as rs
st = rs.init_state(jnp.zeros((2,)))
st = jax.tree.map(lambda x: jnp.stack([x]*4), st)
data = jnp.arange(4*3*2, dtype=jnp.float32).reshape(4,3,2)**1.5
up = jax.pmap(lambda s,b: rs.update(s,b,pmap_axis_name='i'), axis_name='i')
st2 = up(st, data)
print(st2.mean, st2.std, st2.count)
print(np.array(data).reshape(-1,2).mean(0), np.array(data).reshape(-1,2).std(0))
# also vmap with axis_name (collectives under vmap)
up2 = jax.vmap(lambda s,b: rs.update(s,b,pmap_axis_name='i'), axis_name='i')
st3 = up2(st, data); print(st3.mean[0], st3.std[0])
