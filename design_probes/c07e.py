import os, sys, time, functools
os.environ.setdefault('XLA_FLAGS','--xla_cpu_multi_thread_eigen=false intra_op_parallelism_threads=1')
import jax, jax.numpy as jp, numpy as np
from brax import envs
from brax.envs.wrappers import training
name, backend = sys.argv[1], sys.argv[2]
B, T = 4, 30
def rand(sys_, rng):
    @jax.vmap
    def one(r):
        r1,r2,r3 = jax.random.split(r,3)
        mass = sys_.link.inertia.mass * jax.random.uniform(r1, sys_.link.inertia.mass.shape, minval=0.7, maxval=1.3)
        gear = sys_.actuator.gear * jax.random.uniform(r2, sys_.actuator.gear.shape, minval=0.5, maxval=1.5)
        fr = sys_.geom_friction * jax.random.uniform(r3, (), minval=0.5, maxval=1.5)
        return mass, gear, fr
    mass, gear, fr = one(rng)
    sys_v = sys_.tree_replace({'link.inertia.mass': mass, 'actuator.gear': gear, 'geom_friction': fr})
    in_axes = jax.tree.map(lambda x: None, sys_)
    in_axes = in_axes.tree_replace({'link.inertia.mass': 0, 'actuator.gear': 0, 'geom_friction': 0})
    return sys_v, in_axes
env = envs.get_environment(name, backend=backend)
base_sys = env.sys
rng = jax.random.split(jax.random.PRNGKey(3), B)
sys_v, in_axes = rand(base_sys, rng)
wenv = training.wrap(env, episode_length=10, action_repeat=1, randomization_fn=functools.partial(rand, rng=rng))
keys = jax.random.split(jax.random.PRNGKey(5), B)
acts = jax.random.uniform(jax.random.PRNGKey(6), (T,B,env.action_size), minval=-1, maxval=1)
st = jax.jit(wenv.reset)(keys)
step = jax.jit(wenv.step)
traj=[]
for t in range(T):
    st = step(st, acts[t]); traj.append((np.array(st.obs), np.array(st.reward), np.array(st.done)))
# solo
worst=0
for i in range(B):
    sys_i = jax.tree.map(lambda x, ax: x[i] if ax==0 else x, sys_v, in_axes)
    env_i = envs.get_environment(name, backend=backend); env_i.sys = sys_i
    w_i = training.wrap(env_i, episode_length=10, action_repeat=1)
    s = jax.jit(w_i.reset)(keys[i:i+1]); stp = jax.jit(w_i.step)
    for t in range(T):
        s = stp(s, acts[t,i:i+1])
        d = max(np.abs(np.array(s.obs)[0]-traj[t][0][i]).max(), abs(float(s.reward[0])-traj[t][1][i]), abs(float(s.done[0])-traj[t][2][i]))
        worst=max(worst,d)
print(name, backend, 'domain-rand batch vs solo worst abs diff over', T, 'steps:', worst, 'dones', sum(x[2].sum() for x in traj))
