import os, sys, time
os.environ.setdefault('XLA_FLAGS','--xla_cpu_multi_thread_eigen=false intra_op_parallelism_threads=1')
import jax
jax.config.update('jax_enable_x64', True)
import jax.numpy as jp, numpy as np
from brax.io import mjcf
from brax.spring import pipeline as sp
from brax.positional import pipeline as pp
from brax.generalized import pipeline as gp
import gen
def flat(st):
    return np.concatenate([np.array(x).ravel() for x in (st.q, st.qd, st.x.pos, st.x.rot, st.xd.vel, st.xd.ang)])
rng = np.random.default_rng(3003)
m = gen.gen_model(rng, roots='mixed', collide=True, plane=True, gravity=np.array([0,0,-9.81]))
s = mjcf.loads(gen.to_xml(m)); print(s.link_types)
q=jp.array(s.init_q); qd=jp.array(rng.uniform(-1,1,s.qd_size())); c=jp.array(rng.uniform(-1,1,s.act_size()))
for name,P in [('generalized',gp),('spring',sp),('positional',pp)]:
    def f(q,qd,c):
      st = P.init(s,q,qd); return P.step(s,st,c)
    t=time.time(); a = jax.jit(f)(q,qd,c); jax.block_until_ready(a.q); tj=time.time()-t
    t=time.time(); b = f(q,qd,c); jax.block_until_ready(b.q); te=time.time()-t
    t=time.time()
    with jax.disable_jit():
        d = f(q,qd,c)
    jax.block_until_ready(d.q); td=time.time()-t
    print(name, f'jit {tj:.1f}s eager(op-by-op) {te:.1f}s disable_jit {td:.1f}s  diff eager={np.max(np.abs(flat(a)-flat(b))):.1e} disable_jit={np.max(np.abs(flat(a)-flat(d))):.1e}')
