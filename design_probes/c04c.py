import os, sys, time
os.environ.setdefault('XLA_FLAGS','--xla_cpu_multi_thread_eigen=false intra_op_parallelism_threads=1')
import jax
jax.config.update('jax_enable_x64', True)
import jax.numpy as jp, numpy as np
from brax.io import mjcf
from brax.spring import pipeline as sp
from brax.positional import pipeline as pp
import gen
seed0,n = int(sys.argv[1]), int(sys.argv[2])
def geom(rng):
    t = rng.choice(['sphere','capsule','box'])
    if t=='sphere': return f'<geom type="sphere" size="{rng.uniform(0.05,0.2)}" density="{rng.uniform(200,3000)}" pos="{gen.fmt(rng.uniform(-0.05,0.05,3))}"/>'
    if t=='capsule': return f'<geom type="capsule" size="{rng.uniform(0.04,0.1)} {rng.uniform(0.05,0.2)}" density="{rng.uniform(200,3000)}" quat="{gen.fmt(gen.rand_quat(rng))}"/>'
    return f'<geom type="box" size="{gen.fmt(rng.uniform(0.05,0.15,3))}" density="{rng.uniform(200,3000)}" quat="{gen.fmt(gen.rand_quat(rng))}"/>'
for seed in range(seed0, seed0+n):
  rng = np.random.default_rng(7000+seed)
  dt = float(rng.choice([0.0005,0.001,0.002])); e = rng.uniform(0,0.9)
  grav = rng.uniform(-1,1,3)*np.array([1,1,10])
  xml = f"""<mujoco><option timestep="{dt}" gravity="{gen.fmt(grav)}"/><custom><numeric data="{e}" name="elasticity"/></custom><worldbody>
  <body name="a" pos="0 0 0"><freejoint/>{geom(rng)}</body>
  <body name="b" pos="0.6 0 0"><freejoint/>{geom(rng)}</body></worldbody></mujoco>"""
  s = mjcf.loads(xml)
  q = np.array(s.init_q); q[3:7]=gen.rand_quat(rng); q[10:14]=gen.rand_quat(rng); q[7:10] = [0.6, rng.uniform(-0.1,0.1), rng.uniform(-0.1,0.1)]
  qd = np.zeros(12); v=rng.uniform(1,5); qd[0]=v*0.5; qd[6]=-v*0.5; qd[3:6]=rng.normal(size=3)*2; qd[9:12]=rng.normal(size=3)*2
  T = int(0.5/dt)
  for name,P in [('spring',sp),('positional',pp)]:
    def run(q,qd):
      st=P.init(s,q,qd,debug=True); M=st.mass.sum()
      def body(st,_):
        p0=(st.mass[:,None]*st.xd_i.vel).sum(0); ns=P.step(s,st,jp.zeros(0),debug=True); p1=(ns.mass[:,None]*ns.xd_i.vel).sum(0)
        err=jp.abs(p1-p0-M*s.gravity*s.opt.timestep).max(); scale=(ns.mass[:,None]*jp.abs(ns.xd_i.vel)).sum()+M*jp.abs(s.gravity).max()*s.opt.timestep
        return ns,(err/scale, jp.min(ns.contact.dist), jp.abs(ns.xd_i.vel[0]-st.xd_i.vel[0]-s.gravity*s.opt.timestep).max())
      return jax.lax.scan(body,st,None,length=T)[1]
    e_,d_,dv = jax.jit(run)(jp.array(q),jp.array(qd))
    e_=np.array(e_); d_=np.array(d_); dv=np.array(dv)
    print(seed, name, f'dt={dt} relerr={np.nanmax(e_):.2e} min_dist={d_.min():+.4f} contact_steps={(d_<0).sum()} max_impulse_dv={dv.max():.3f}', flush=True)
