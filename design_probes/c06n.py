"""near-approach separated twin: free body above plane, gap small, approaching; compare with collision-free twin under bounding-sphere guard."""
import os, sys, time
os.environ.setdefault('XLA_FLAGS','--xla_cpu_multi_thread_eigen=false intra_op_parallelism_threads=1')
import jax
jax.config.update('jax_enable_x64', True)
import jax.numpy as jp, numpy as np
from brax.io import mjcf
from brax.spring import pipeline as sp
from brax.positional import pipeline as pp
from brax.generalized import pipeline as gp
import gen
seed0,n = int(sys.argv[1]), int(sys.argv[2])
def scene(g, dt, collide):
    c = (1,2) if collide else (0,0); pc = (2,1) if collide else (0,0)
    return f"""<mujoco><option timestep="{dt}"/><worldbody><geom name="floor" type="plane" size="5 5 0.1" contype="{pc[0]}" conaffinity="{pc[1]}"/>
  <body name="a" pos="0 0 1"><freejoint/>{g.format(ct=c[0], ca=c[1])}</body></worldbody></mujoco>"""
for seed in range(seed0, seed0+n):
  rng = np.random.default_rng(9000+seed)
  shape = rng.choice(['sphere','box','capsule']); dens = rng.uniform(200,3000)
  if shape=='sphere':
    r=rng.uniform(0.05,0.3); g=f'<geom type="sphere" size="{r}" density="{dens}" contype="{{ct}}" conaffinity="{{ca}}"/>'; brad=r
  elif shape=='box':
    s3=rng.uniform(0.05,0.3,3); g=f'<geom type="box" size="{gen.fmt(s3)}" density="{dens}" contype="{{ct}}" conaffinity="{{ca}}"/>'; brad=float(np.linalg.norm(s3))
  else:
    r=rng.uniform(0.05,0.15); hl=rng.uniform(0.05,0.3); g=f'<geom type="capsule" size="{r} {hl}" density="{dens}" contype="{{ct}}" conaffinity="{{ca}}"/>'; brad=r+hl
  dt=float(rng.choice([0.0005,0.001,0.002,0.004]))
  sA=mjcf.loads(scene(g,dt,True)); sB=mjcf.loads(scene(g,dt,False))
  # For a tight gap use the exact lowest point: sphere => brad exact. for box/capsule choose orientation identity: lowest point = s3[2] or r+hl (capsule upright along z)
  exact_low = r if shape=='sphere' else (s3[2] if shape=='box' else r+hl)
  gap = rng.uniform(0.001,0.02); v_app = rng.uniform(0,3.0); vt = rng.uniform(-2,2,2)
  q=np.array(sA.init_q); q[2]=exact_low+gap
  qd=np.zeros(6); qd[2]=-v_app; qd[:2]=vt
  T=10
  for pname,P in [('generalized',gp),('spring',sp),('positional',pp)]:
    def run(s):
      st=P.init(s,jp.array(q),jp.array(qd))
      def body(st,_):
        ns=P.step(s,st,jp.zeros(0)); return ns,(ns.q,ns.qd)
      return jax.lax.scan(body,st,None,length=T)[1]
    qa,qda=jax.jit(lambda: run(sA))(); qb,qdb=jax.jit(lambda: run(sB))()
    qa=np.array(qa); qb=np.array(qb); qda=np.array(qda); qdb=np.array(qdb)
    # guard from twin-free trajectory B (contact-free reference): lowest point height before & after each step with margin
    zB = np.concatenate([[q[2]], qb[:,2]]); vB = np.concatenate([[qd[2]], qdb[:,2]])
    ok_steps=0
    for t in range(T):
      margin = 2*max(abs(vB[t]),abs(vB[t+1]))*dt + 1e-3
      if min(zB[t], zB[t+1]) - exact_low > margin: ok_steps+=1
      else: break
    if ok_steps==0:
      print(seed, shape, pname, f'gap={gap*1e3:.1f}mm v={v_app:.2f} dt={dt} guard fails at step 0'); continue
    d = max(np.abs(qa[:ok_steps]-qb[:ok_steps]).max(), np.abs(qda[:ok_steps]-qdb[:ok_steps]).max())
    dn = max(np.abs(qa[ok_steps:]-qb[ok_steps:]).max(), np.abs(qda[ok_steps:]-qdb[ok_steps:]).max()) if ok_steps<T else 0
    print(seed, shape, pname, f'gap={gap*1e3:.1f}mm v={v_app:.2f} dt={dt} guarded_steps={ok_steps} diff_guarded={d:.1e} diff_after={dn:.1e}', flush=True)
