import os, sys, time
os.environ.setdefault('XLA_FLAGS','--xla_cpu_multi_thread_eigen=false intra_op_parallelism_threads=1')
import jax
jax.config.update('jax_enable_x64', True)
import jax.numpy as jp, numpy as np
from brax.io import mjcf
from brax.spring import pipeline as sp
from brax.positional import pipeline as pp
from brax.generalized import pipeline as gp
import gen
seed0, n = int(sys.argv[1]), int(sys.argv[2])
def flat(st):
    return np.concatenate([np.array(x).ravel() for x in (st.q, st.qd, st.x.pos, st.x.rot, st.xd.vel, st.xd.ang)])
for seed in range(seed0, seed0+n):
  rng = np.random.default_rng(3000+seed)
  m = gen.gen_model(rng, roots='mixed', collide=True, plane=True, gravity=np.array([0,0,-9.81]))
  # lower so contacts likely
  for l in m['links']:
    if l['parent']==-1: l['pos'][2] = rng.uniform(0.0,0.4)
  s = mjcf.loads(gen.to_xml(m))
  B=4
  q0 = np.tile(np.array(s.init_q),(B,1))
  qi = [int(i) for i in (s.q_idx('123') if any(t in '123' for t in s.link_types) else [])]
  if qi: q0[:,qi] = rng.uniform(-0.5,0.5,(B,len(qi)))
  qd0 = rng.uniform(-1,1,(B,s.qd_size()))
  ctrl = rng.uniform(-1,1,(B,s.act_size()))
  for name,P in [('generalized',gp),('spring',sp),('positional',pp)]:
    def f(q,qd,c):
      st = P.init(s,q,qd); st = P.step(s,st,c); st = P.step(s,st,c); return st
    t0=time.time()
    bat = jax.jit(jax.vmap(f))(jp.array(q0),jp.array(qd0),jp.array(ctrl))
    solo = [jax.jit(f)(jp.array(q0[i]),jp.array(qd0[i]),jp.array(ctrl[i])) for i in range(B)]
    d = max(np.max(np.abs(flat(jax.tree.map(lambda x: x[i], bat)) - flat(solo[i]))) for i in range(B))
    scale = max(np.max(np.abs(flat(solo[i]))) for i in range(B))
    # noninterference: change others, keep member 0
    q1=q0.copy(); qd1=qd0.copy(); c1=ctrl.copy()
    q1[1:,:] = q0[1:,:][::-1]; qd1[1:] = rng.uniform(-50,50,qd1[1:].shape); qd1[2] = np.nan
    if c1.size: c1[1:] = 1e6
    bat2 = jax.jit(jax.vmap(f))(jp.array(q1),jp.array(qd1),jp.array(c1))
    same = np.array_equal(flat(jax.tree.map(lambda x: x[0], bat)), flat(jax.tree.map(lambda x: x[0], bat2)), equal_nan=True)
    # eager
    t1=time.time()
    with jax.disable_jit():
      pass
    print(seed, s.link_types, name, f'batch-vs-solo maxabs={d:.2e} scale={scale:.2e} noninterf_bitwise={same} wall={time.time()-t0:.1f}', flush=True)
