import os, sys, types, time, random
os.environ.setdefault('XLA_FLAGS','--xla_cpu_multi_thread_eigen=false intra_op_parallelism_threads=1')
import jax, jax.numpy as jp, numpy as np
try:
    import brax.training.acting as acting
except AttributeError:
    for m in [k for k in sys.modules if k.startswith('brax.v1') or k=='brax.training.acting']: del sys.modules[m]
    v1 = types.ModuleType('brax.v1'); v1e = types.ModuleType('brax.v1.envs')
    class _S: pass
    v1e.State=_S; v1e.Env=_S; v1e.Wrapper=_S; v1.envs=v1e
    sys.modules['brax.v1']=v1; sys.modules['brax.v1.envs']=v1e
    import brax.training.acting as acting
from brax import envs
from brax.envs.base import Env, State
from brax.envs.wrappers import training
class ScriptEnv(Env):
    def reset(self, rng):
        mid = rng[-1].astype(jp.float32)
        ps = {'t': jp.zeros((), jp.int32), 'dead': jp.zeros(()), 'id': mid}
        z = jp.zeros(())
        return State(ps, jp.stack([mid, 0.0, 0.0]), z, z, {'m': z})
    def step(self, state, action):
        ps = state.pipeline_state; t = ps['t'] + 1
        dead = jp.maximum(ps['dead'], (action[0] > 0.5).astype(jp.float32))
        rew = action[1] + 0.125 * t
        return state.replace(pipeline_state={'t': t, 'dead': dead, 'id': ps['id']}, obs=jp.stack([ps['id'], t.astype(jp.float32), dead]), reward=rew, done=dead, metrics={**state.metrics, 'm': rew*2})
    observation_size = 3; action_size = 2; backend='script'
class Clock:
    def __init__(s, deltas): s.t=1000.0; s.d=list(deltas); s.i=0
    def time(s): s.t += s.d[s.i % len(s.d)]; s.i+=1; return s.t
def run(seed):
    r = random.Random(seed)
    L=r.randint(1,6); R=r.randint(1,3); B=r.randint(1,5); U=r.randint(1,12); pterm=r.choice([0.05,0.2,0.5])
    env = training.wrap(ScriptEnv(), episode_length=L, action_repeat=R)
    def policy(obs, key):
        k1,k2 = jax.random.split(key)
        term = (jax.random.uniform(k1, obs.shape[:-1]) < pterm).astype(jp.float32)
        rew = jax.random.randint(k2, obs.shape[:-1], -3, 4).astype(jp.float32)
        return jp.stack([term, rew], -1), {'k': term}
    keys = jp.stack([jp.array([seed, 10+i], jp.uint32) for i in range(B)])
    st0 = env.reset(keys)
    fin, data = acting.generate_unroll(env, st0, policy, jax.random.PRNGKey(seed), U, extra_fields=('truncation','steps'))
    obs=np.array(data.observation); nobs=np.array(data.next_observation); act=np.array(data.action); rew=np.array(data.reward); disc=np.array(data.discount)
    tr=np.array(data.extras['state_extras']['truncation']); steps=np.array(data.extras['state_extras']['steps'])
    assert np.array_equal(obs[0], np.array(st0.obs))
    assert np.array_equal(obs[1:], nobs[:-1]), (seed,'chain')
    assert np.array_equal(nobs[-1], np.array(fin.obs))
    # model replay from recorded actions
    for b in range(B):
        t=0; dead=0.0; stp=0; prev=False
        for k in range(U):
            if prev: stp=0
            rr=0.0
            for _ in range(R):
                t+=1; dead=max(dead, float(act[k,b,0]>0.5)); rr+=act[k,b,1]+0.125*t
            stp+=R; to = stp>=L; done = 1.0 if to else dead; trunc=(1-dead) if to else 0.0
            assert rew[k,b]==rr and disc[k,b]==1-done and tr[k,b]==trunc and steps[k,b]==stp, (seed,k,b, rew[k,b],rr,disc[k,b],done,tr[k,b],trunc,steps[k,b],stp)
            if done: t=0; dead=0.0
            assert nobs[k,b,1]==t and nobs[k,b,2]==dead
            prev=bool(done)
    # evaluator under two clocks
    res=[]
    for deltas in ([0.25],[1e-6, 1e6, 3.0]):
        acting.time = Clock(deltas)
        ev = acting.Evaluator(env, lambda params: policy, num_eval_envs=B, episode_length=L, action_repeat=R, key=jax.random.PRNGKey(seed+1))
        m = ev.run_evaluation(None, {})
        res.append({k: float(v) for k,v in m.items() if k.startswith('eval/episode') or k=='eval/avg_episode_length'})
    assert res[0]==res[1], (seed,'clock dependence',res)
    return U*B
n=0; t=time.time()
for seed in range(int(sys.argv[1]), int(sys.argv[2])): n+=run(seed)
print('ok unroll member-steps', n, 'wall', time.time()-t)
