import os, sys, hashlib
os.environ['XLA_FLAGS']='--xla_force_host_platform_device_count=4 --xla_cpu_multi_thread_eigen=false intra_op_parallelism_threads=1'
import jax
import jax.numpy as jnp, numpy as np
from brax.training.acme import running_statistics as rs
r=np.random.default_rng(0)
h=hashlib.sha256()
up=jax.pmap(lambda s,b: rs.update(s,b,pmap_axis_name='i'), axis_name='i')
for rep in range(200):
    st=rs.init_state(jnp.zeros((5,))); st=jax.tree.map(lambda x: jnp.stack([x]*4), st)
    for k in range(3):
        a=(r.normal(size=(4,7,5))*1e3+17).astype(np.float32)
        st=up(st,jnp.array(a))
    h.update(np.array(st.mean).tobytes()); h.update(np.array(st.std).tobytes())
print(h.hexdigest()[:16])
