import os, sys, hashlib
import jax, jax.numpy as jp, numpy as np
from brax import envs
from brax.envs.wrappers import training
name, backend = sys.argv[1], sys.argv[2]
env = envs.get_environment(name, backend=backend)
wenv = training.wrap(env, episode_length=100, action_repeat=1)
key = jax.random.PRNGKey(7); kr, ka = jax.random.split(key)
B,T=8,150
state = jax.jit(wenv.reset)(jax.random.split(kr, B))
acts = jp.sign(jax.random.uniform(ka,(T,B,env.action_size),minval=-1,maxval=1))
def body(st,a):
    ns = wenv.step(st,a); return ns,(ns.obs,ns.reward,ns.done)
state,(o,r,d)=jax.jit(lambda s,a: jax.lax.scan(body,s,a))(state,acts)
h=hashlib.sha256(); 
for x in (o,r,d): h.update(np.array(x).tobytes())
print(name, backend, os.environ.get('XLA_FLAGS','-'), os.environ.get('PYTHONHASHSEED','-'), h.hexdigest()[:16])
