import os
os.environ['XLA_FLAGS']='--xla_force_host_platform_device_count=4'
import jax, jax.numpy as jnp, numpy as np
print(jax.devices())
from brax.training import replay_buffers as rb
q = rb.PmapWrapper(rb.Queue(3, jnp.zeros((1,), jnp.int32), 2), local_device_count=4)
s = q.init(jax.random.PRNGKey(0))
s = q.insert(s, jnp.arange(8).reshape(8,1))
print('size', q.size(s))
s, out = q.sample(s); print('pmap sample', out.ravel())
mesh = jax.sharding.Mesh(np.array(jax.devices()).reshape(2,2), ('x','y'))
q = rb.PjitWrapper(rb.Queue(3, jnp.zeros((1,), jnp.int32), 2), mesh=mesh, axis_names=('x',))
s = q.init(jax.random.PRNGKey(0))
s = q.insert(s, jnp.arange(4).reshape(4,1))
print('size', q.size(s))
s, out = q.sample(s); print('pjit sample', out.ravel())
from brax.training.acme import running_statistics as rs
st = rs.init_state(jnp.zeros((2,)))
st = jax.device_put_replicated(st, jax.devices())
data = jnp.arange(4*3*2, dtype=jnp.float32).reshape(4,3,2)
up = jax.pmap(lambda s,b: rs.update(s,b,pmap_axis_name='i'), axis_name='i')
st2 = up(st, data)
print(st2.mean, st2.std, st2.count)
print(np.array(data).reshape(-1,2).mean(0), np.array(data).reshape(-1,2).std(0))
