import os, sys, time, random
os.environ['XLA_FLAGS']='--xla_force_host_platform_device_count=4 --xla_cpu_multi_thread_eigen=false intra_op_parallelism_threads=1'
import jax, jax.numpy as jnp, numpy as np
from brax.training import replay_buffers as rb
def run(seed):
    r=random.Random(seed); cap=r.randint(1,5); B=r.randint(1,4); jit=r.random()<0.5
    def mk():
        q=rb.UniformSamplingQueue(cap, {'a': jnp.zeros((), jnp.float32), 'b': jnp.zeros((2,), jnp.float32)}, B)
        if jit: q.insert_internal=jax.jit(q.insert_internal); q.sample_internal=jax.jit(q.sample_internal)
        return q
    q1,q2=mk(),mk(); key=jax.random.PRNGKey(seed); s1,s2=q1.init(key),q2.init(key)
    held=[]; serial=1; nops=0
    for _ in range(r.randint(2,12)):
        if r.random()<0.5 or not held:
            k=r.randint(1,cap); recs=list(range(serial,serial+k)); serial+=k
            batch={'a': jnp.array(recs,jnp.float32), 'b': jnp.array([[x*2,x*3] for x in recs],jnp.float32)}
            s1=q1.insert(s1,batch); s2=q2.insert(s2,batch); held=(held+recs)[-cap:]
        else:
            s1,o1=q1.sample(s1); s2,o2=q2.sample(s2)
            a=np.array(o1['a']); b=np.array(o1['b'])
            assert all(int(x) in held for x in a), (seed, a, held)
            assert np.array_equal(b[:,0],2*a) and np.array_equal(b[:,1],3*a)
            assert np.array_equal(a,np.array(o2['a'])), 'key determinism'
        assert int(q1.size(s1))==len(held)
        nops+=1
    # coverage on a copy
    if held:
        s=s1; seen=set()
        for _ in range(200//B+1):
            s,o=q1.sample_internal(s); seen|=set(int(x) for x in np.array(o['a']))
        assert seen==set(held), (seed, seen, held)
    return nops
t=time.time(); n=0
for seed in range(int(sys.argv[1]),int(sys.argv[2])): n+=run(seed)
print('uniform ok ops',n,'wall',time.time()-t)
