"""Prototype model generator (probe only)."""
import numpy as np


def rand_quat(rng):
  q = rng.normal(size=4)
  return q / np.linalg.norm(q)


def quat_to_mat(q):
  w, x, y, z = q
  return np.array([
      [1 - 2 * (y * y + z * z), 2 * (x * y - z * w), 2 * (x * z + y * w)],
      [2 * (x * y + z * w), 1 - 2 * (x * x + z * z), 2 * (y * z - x * w)],
      [2 * (x * z - y * w), 2 * (y * z + x * w), 1 - 2 * (x * x + y * y)],
  ])


def fmt(v):
  return ' '.join(repr(float(x)) for x in np.atleast_1d(v))


def gen_model(rng, *, roots='free', n_links=None, collide=False, plane=False,
              limits=True, actuators=True, gravity=None, springs=True,
              damping=True, pos_act=True):
  n_links = n_links or int(rng.integers(1, 7))
  links = []
  for i in range(n_links):
    if i == 0 or rng.random() < 0.25:
      parent = -1
    else:
      parent = int(rng.integers(0, i))
    if parent == -1:
      rt = roots if roots in ('free', 'world') else rng.choice(['free', 'world'])
    else:
      rt = None
    link = dict(parent=parent, root=rt)
    link['pos'] = rng.uniform(-0.4, 0.4, 3) + (np.array([0, 0, 1.5]) if parent == -1 else 0)
    link['quat'] = rand_quat(rng) if rng.random() < 0.8 else np.array([1., 0, 0, 0])
    joints = []
    if rt != 'free':
      kind = rng.choice(['h', 's', 'sh'])
      n = int(rng.integers(1, 4))
      R = quat_to_mat(rand_quat(rng)) if rng.random() < 0.8 else np.eye(3)
      if rng.random() < 0.5:
        R[:, 2] *= -1
      perm = rng.permutation(3)
      for k in range(n):
        if kind == 'h':
          t = 'hinge'
        elif kind == 's':
          t = 'slide'
        else:
          t = 'hinge' if (k == n - 1 and n > 1) else 'slide'
        j = dict(type=t, axis=R[:, perm[k]].copy())
        if limits and rng.random() < 0.5:
          lo = -rng.uniform(0.3, 1.2); hi = rng.uniform(0.3, 1.2)
          j['range'] = (lo, hi)
        if damping and rng.random() < 0.4:
          j['damping'] = rng.uniform(0.05, 1.0)
        if rng.random() < 0.3:
          j['armature'] = rng.uniform(0.01, 0.1)
        if springs and rng.random() < 0.3:
          j['stiffness'] = rng.uniform(1, 20)
        joints.append(j)
      link['anchor'] = rng.uniform(-0.1, 0.1, 3) if rng.random() < 0.5 else np.zeros(3)
    link['joints'] = joints
    geoms = []
    for _ in range(int(rng.integers(1, 3))):
      gt = rng.choice(['sphere', 'capsule', 'box'])
      g = dict(type=gt, pos=rng.uniform(-0.15, 0.15, 3), quat=rand_quat(rng),
               density=rng.uniform(200, 3000))
      if gt == 'sphere':
        g['size'] = [rng.uniform(0.04, 0.12)]
      elif gt == 'capsule':
        g['size'] = [rng.uniform(0.03, 0.08), rng.uniform(0.05, 0.2)]
      else:
        g['size'] = list(rng.uniform(0.04, 0.12, 3))
      g['collide'] = bool(collide)
      geoms.append(g)
    link['geoms'] = geoms
    links.append(link)
  acts = []
  if actuators:
    jn = [(i, k) for i, l in enumerate(links) for k in range(len(l['joints']))]
    for _ in range(int(rng.integers(0, 5))):
      if not jn:
        break
      i, k = jn[int(rng.integers(len(jn)))]
      kind = rng.choice(['motor', 'position', 'velocity']) if pos_act else 'motor'
      a = dict(kind=kind, joint=f'j{i}_{k}', gear=rng.uniform(0.5, 30))
      if kind == 'position':
        a['kp'] = rng.uniform(1, 20)
      if kind == 'velocity':
        a['kv'] = rng.uniform(0.1, 5)
      if rng.random() < 0.5:
        a['ctrlrange'] = (-rng.uniform(0.3, 1.5), rng.uniform(0.3, 1.5))
      if rng.random() < 0.3:
        a['forcerange'] = (-rng.uniform(0.5, 5), rng.uniform(0.5, 5))
      acts.append(a)
  g = gravity if gravity is not None else rng.uniform(-1, 1, 3) * np.array([2, 2, 10])
  return dict(links=links, acts=acts, dt=float(rng.choice([0.0005, 0.001, 0.002, 0.004])),
              gravity=g, plane=plane)


def to_xml(m, *, collide_override=None, strip_limits=False):
  out = ['<mujoco>', f'<option timestep="{m["dt"]}" gravity="{fmt(m["gravity"])}"/>',
         '<worldbody>']
  if m.get('plane'):
    c = 1 if collide_override is None else int(collide_override)
    out.append(f'<geom name="floor" type="plane" size="10 10 0.1" contype="{c}" conaffinity="{c}"/>')
  children = {i: [] for i in range(-1, len(m['links']))}
  for i, l in enumerate(m['links']):
    children[l['parent']].append(i)

  def emit(i):
    l = m['links'][i]
    out.append(f'<body name="b{i}" pos="{fmt(l["pos"])}" quat="{fmt(l["quat"])}">')
    if l['root'] == 'free':
      out.append('<freejoint/>')
    for k, j in enumerate(l['joints']):
      s = f'<joint name="j{i}_{k}" type="{j["type"]}" axis="{fmt(j["axis"])}" pos="{fmt(l["anchor"])}"'
      if 'range' in j and not strip_limits:
        s += f' limited="true" range="{fmt(j["range"])}"'
      for key in ('damping', 'armature', 'stiffness'):
        if key in j:
          s += f' {key}="{j[key]!r}"'
      out.append(s + '/>')
    for gi, g in enumerate(l['geoms']):
      c = g['collide'] if collide_override is None else collide_override
      c = int(bool(c))
      out.append(f'<geom name="g{i}_{gi}" type="{g["type"]}" size="{fmt(g["size"])}" pos="{fmt(g["pos"])}" '
                 f'quat="{fmt(g["quat"])}" density="{g["density"]!r}" contype="{c}" conaffinity="{c}"/>')
    for c in children[i]:
      emit(c)
    out.append('</body>')

  for r in children[-1]:
    emit(r)
  out.append('</worldbody>')
  if m['acts']:
    out.append('<actuator>')
    for a in m['acts']:
      s = f'<{a["kind"]} joint="{a["joint"]}" gear="{a["gear"]!r}"'
      if 'kp' in a: s += f' kp="{a["kp"]!r}"'
      if 'kv' in a: s += f' kv="{a["kv"]!r}"'
      if 'ctrlrange' in a: s += f' ctrllimited="true" ctrlrange="{fmt(a["ctrlrange"])}"'
      if 'forcerange' in a: s += f' forcelimited="true" forcerange="{fmt(a["forcerange"])}"'
      out.append(s + '/>')
    out.append('</actuator>')
  out.append('</mujoco>')
  return '\n'.join(out)
