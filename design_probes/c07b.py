import os, sys, time
os.environ.setdefault('XLA_FLAGS','--xla_cpu_multi_thread_eigen=false intra_op_parallelism_threads=1')
import jax
jax.config.update('jax_enable_x64', True)
import jax.numpy as jp, numpy as np
from brax.io import mjcf
from brax.generalized import pipeline as gp
from brax.generalized import constraint
import gen
def flat(st):
    return np.concatenate([np.array(x).ravel() for x in (st.q, st.qd, st.x.pos, st.x.rot, st.xd.vel, st.xd.ang)])
for seed in [7,12]:
  rng = np.random.default_rng(3000+seed)
  m = gen.gen_model(rng, roots='mixed', collide=True, plane=True, gravity=np.array([0,0,-9.81]))
  for l in m['links']:
    if l['parent']==-1: l['pos'][2] = rng.uniform(0.0,0.4)
  s = mjcf.loads(gen.to_xml(m))
  B=4
  q0 = np.tile(np.array(s.init_q),(B,1))
  qi = [int(i) for i in (s.q_idx('123') if any(t in '123' for t in s.link_types) else [])]
  if qi: q0[:,qi] = rng.uniform(-0.5,0.5,(B,len(qi)))
  qd0 = rng.uniform(-1,1,(B,s.qd_size()))
  ctrl = rng.uniform(-1,1,(B,s.act_size()))
  P=gp
  def f(q,qd,c):
      st = P.init(s,q,qd); st1 = P.step(s,st,c); st2 = P.step(s,st1,c); return st1, st2
  bat1, bat2 = jax.jit(jax.vmap(f))(jp.array(q0),jp.array(qd0),jp.array(ctrl))
  fj = jax.jit(f)
  for i in range(B):
    s1, s2 = fj(jp.array(q0[i]),jp.array(qd0[i]),jp.array(ctrl[i]))
    d1 = np.max(np.abs(flat(jax.tree.map(lambda x: x[i], bat1)) - flat(s1)))
    d2 = np.max(np.abs(flat(jax.tree.map(lambda x: x[i], bat2)) - flat(s2)))
    # perturb
    p1, p2 = fj(jp.array(q0[i]),jp.array(qd0[i]*(1+1e-13)),jp.array(ctrl[i]))
    e1 = np.max(np.abs(flat(p1)-flat(s1))); e2 = np.max(np.abs(flat(p2)-flat(s2)))
    ncon = int((np.array(s1.con_jac).any(axis=1)).sum())
    print(seed, i, f'batch-solo step1={d1:.2e} step2={d2:.2e} | perturb 1e-13: step1={e1:.2e} step2={e2:.2e} active rows={ncon} qf_con max={float(jp.abs(s2.qf_constraint).max()):.3g}')
