import os, sys, time
os.environ['XLA_FLAGS']='--xla_force_host_platform_device_count=4 --xla_cpu_multi_thread_eigen=false intra_op_parallelism_threads=1'
import jax
jax.config.update('jax_enable_x64', True)
import jax.numpy as jnp, numpy as np
from brax.training.acme import running_statistics as rs
worst=0
for seed in range(int(sys.argv[1]),int(sys.argv[2])):
    r=np.random.default_rng(seed); D=int(r.choice([2,4])); F=int(r.integers(1,5)); nb=int(r.integers(1,5))
    st=rs.init_state({'a': jnp.zeros((F,)), 'n': jnp.zeros((2,), jnp.int32)})
    st=jax.tree.map(lambda x: jnp.stack([x]*D), st)
    X=[];W=[]
    up=jax.pmap(lambda s,b,w: rs.update(s,b,weights=w,pmap_axis_name='i'), axis_name='i')
    upv=jax.vmap(lambda s,b,w: rs.update(s,b,weights=w,pmap_axis_name='i'), axis_name='i')
    for bi in range(nb):
        per=int(r.integers(1,6)); two=r.random()<0.5
        shape=(D,2,per) if two else (D,per)
        a=r.normal(size=shape+(F,))*10+5; n=r.integers(-3,3,size=shape+(2,)).astype(np.int32)
        w=r.integers(0,5,size=shape).astype(np.float64)
        if bi==0 and w.sum()==0: w.flat[0]=1
        f = up if r.random()<0.5 else upv
        st=f(st,{'a': jnp.array(a),'n': jnp.array(n)}, jnp.array(w))
        X.append(a.reshape(-1,F)); W.append(w.reshape(-1))
        x=np.concatenate(X); ww=np.concatenate(W); mean=(ww[:,None]*x).sum(0)/ww.sum(); var=(ww[:,None]*(x-mean)**2).sum(0)/ww.sum()
        for d in range(D):
            worst=max(worst, np.abs(np.array(st.mean['a'][d])-mean).max()/15, np.abs(np.array(st.std['a'][d])**2-var).max()/225)
            assert float(st.count[d])==ww.sum()
    nrm=rs.normalize({'a': jnp.array(a[0]), 'n': jnp.array(n[0])}, jax.tree.map(lambda x:x[0], st)); back=rs.denormalize(nrm, jax.tree.map(lambda x:x[0], st))
    assert np.array_equal(np.array(back['n']), n[0]) and back['n'].dtype==jnp.int32
    worst=max(worst, np.abs(np.array(back['a'])-a[0]).max()/15)
print('pmap/vmap-psum weighted stats worst rel err', worst)
