import os, sys, time
os.environ.setdefault('XLA_FLAGS','--xla_cpu_multi_thread_eigen=false intra_op_parallelism_threads=1')
import jax
jax.config.update('jax_enable_x64', True)
import jax.numpy as jp, numpy as np
from brax.io import mjcf
from brax.spring import pipeline as sp
from brax.positional import pipeline as pp
from brax.generalized import pipeline as gp
import gen
seed0, n = int(sys.argv[1]), int(sys.argv[2])
for seed in range(seed0, seed0+n):
  rng = np.random.default_rng(seed)
  m = gen.gen_model(rng, roots='free')
  xml = gen.to_xml(m)
  try:
    s = mjcf.loads(xml)
  except Exception as e:
    print(seed, 'LOADFAIL', type(e).__name__, str(e)[:100]); continue
  B, T = 4, 60
  q0 = np.tile(np.array(s.init_q), (B,1)); 
  # randomize non-free q
  qidx = np.array(s.q_idx('123')) if any(t in '123' for t in s.link_types) else np.array([],int)
  if len(qidx): q0[:, qidx] = rng.uniform(-1,1,(B,len(qidx)))
  qd0 = rng.uniform(-1,1,(B,s.qd_size()))
  ctrl = rng.choice([-1.,0.,1.,2.5], size=(T,B,s.act_size()))
  kicks = (rng.random((T,B,s.num_links(),1))<0.05) * rng.normal(size=(T,B,s.num_links(),3))*5
  for name,P in [('spring',sp),('positional',pp)]:
    t0=time.time()
    def run(q,qd,ctrl,kicks):
      st = P.init(s,q,qd)
      M = st.mass.sum(); 
      def body(st, ck):
        c,k = ck
        st = st.replace(xd_i=st.xd_i.replace(vel=st.xd_i.vel + k))
        p0 = (st.mass[:,None]*st.xd_i.vel).sum(0)
        ns = P.step(s, st, c)
        p1 = (ns.mass[:,None]*ns.xd_i.vel).sum(0)
        err = jp.abs(p1-p0-M*s.gravity*s.opt.timestep).max()
        scale = (ns.mass[:,None]*jp.abs(ns.xd_i.vel)).sum() + M*jp.abs(s.gravity).max()*s.opt.timestep
        return ns, (err/scale, jp.abs(ns.qd).max())
      st,(e,qdm) = jax.lax.scan(body, st, (ctrl,kicks))
      return e, qdm
    try:
      e,qdm = jax.jit(jax.vmap(run, in_axes=(0,0,1,1)))(jp.array(q0),jp.array(qd0),jp.array(ctrl),jp.array(kicks))
      e=np.array(e); qdm=np.array(qdm)
      fin = np.isfinite(e)
      print(seed, s.link_types, s.link_parents, name, f'relerr max={np.nanmax(e):.2e} nonfinite={int((~fin).sum())} qdmax={np.nanmax(qdm):.3g} dt={m["dt"]} nact={s.act_size()} wall={time.time()-t0:.1f}', flush=True)
    except Exception as ex:
      print(seed, s.link_types, name, 'EXC', type(ex).__name__, str(ex)[:200], flush=True)
