import os, sys, time
os.environ.setdefault('XLA_FLAGS','--xla_cpu_multi_thread_eigen=false intra_op_parallelism_threads=1')
import jax
jax.config.update('jax_enable_x64', True)
import jax.numpy as jp, numpy as np
from brax.io import mjcf
from brax.spring import pipeline as sp
from brax.positional import pipeline as pp
from brax.generalized import pipeline as gp
import gen
seed0, n = int(sys.argv[1]), int(sys.argv[2])
for seed in range(seed0, seed0+n):
  rng = np.random.default_rng(1000+seed)
  m = gen.gen_model(rng, roots='mixed', gravity=np.zeros(3), springs=False, pos_act=False)
  s = mjcf.loads(gen.to_xml(m))
  B = 4
  q0 = np.tile(np.array(s.init_q), (B,1))
  # q within limits
  lim = s.dof.limit
  qi = [int(i) for i in (s.q_idx('123') if any(t in '123' for t in s.link_types) else [])]
  di = [int(i) for i in (s.qd_idx('123') if any(t in '123' for t in s.link_types) else [])]
  for a,(qq,dd) in enumerate(zip(qi,di)):
    lo = -1.0 if lim is None else max(-1.0, float(lim[0][dd])); hi = 1.0 if lim is None else min(1.0, float(lim[1][dd]))
    q0[:,qq] = rng.uniform(lo*0.95, hi*0.95, B)
  # random free root poses
  for k in [int(i) for i in (s.q_idx('f') if 'f' in s.link_types else [])][::7]:
    for b in range(B):
      q0[b,k:k+3] = rng.uniform(-1,1,3); q0[b,k+3:k+7] = gen.rand_quat(rng)
  for name,P in [('generalized',gp),('spring',sp),('positional',pp)]:
    def run(q):
      st = P.init(s,q,jp.zeros(s.qd_size()))
      ns = P.step(s, st, jp.zeros(s.act_size()))
      ns = P.step(s, ns, jp.zeros(s.act_size()))
      return jp.abs(ns.qd).max(), jp.abs(ns.q-q).max(), jp.abs(ns.xd.vel).max(), jp.abs(ns.xd.ang).max(), jp.abs(ns.x.pos-st.x.pos).max()
    r = jax.jit(jax.vmap(run))(jp.array(q0))
    r = [float(np.max(np.array(x))) for x in r]
    print(seed, s.link_types, name, 'qd=%.1e dq=%.1e xdv=%.1e xda=%.1e dx=%.1e'%tuple(r), 'dt', m['dt'], flush=True)
